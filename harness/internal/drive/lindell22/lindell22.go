// Package lindell22 drives the real Lindell22 threshold-Schnorr signing protocol of /repo
// (pkg/mpc/signatures/schnorr/lindell22/signing) round by round, as the package's own
// signing_test.go does (there through the runner; here through Round1..Round3 directly),
// under the conventions of verif/harness/internal/drive.
//
//	res := lindell22.RunFull(cfg);  tr := lindell22.Run(cfg);  lindell22.Full(tr)
//
// Conventions
//
//   - cfg.Variant selects the Schnorr flavour and group:
//     "bip340" (secp256k1, BIP-340), "mina" (Pallas, Poseidon, MainNet prefix),
//     "schnorr-k256", "schnorr-k256-neg" (response k − e·x), "schnorr-p256",
//     "schnorr-k256-le" (little-endian challenge); cfg.Hash is the challenge hash of the
//     vanilla flavours ("sha256" | "sha512" | "sha3-256").
//   - Key material: drive/keys.Material (trusted dealer on stream vh.NewRng(Seed, Prop, "deal", 0),
//     or the real Gennaro DKG with cfg.KeySource = "gennaro") for
//     cfg.Policy over the variant's group, converted with lindell22/keygen.NewShard.
//   - Per-party recording tapes as in every driver ("new" during NewCosigner, "r1".."r3").
//     The first read of a party with tag r1 is its nonce k_i (RandomNonIdentity).
//   - Messages: round 1: Round1Broadcast + Round1P2P, round 2: Round2Broadcast, round 3: the
//     PartialSignature, passed to the aggregator as a broadcast with recipient 0.
//   - cfg.API = "runner": the parties are made with signing.NewRunner and run concurrently through
//     network.Router over an in-memory transport (drive/keys.RunRunners); messages then do not pass
//     through drive.Pass, the tape mark is "run" throughout, and only aggregator 0 aggregates.
//   - Aggregation: "aggregator 0" is signing.NewAggregator (not a cosigner) on all partial
//     signatures; in addition every party of the quorum aggregates as
//     signing.NewCosigningAggregator (round 4 step of that party; a failure becomes the
//     party's verdict). Result.Sig is aggregator 0's output, Result.SigBy[id] the parties'.
//   - Trace.Outputs[0] / Outputs[id] = "wire=<hex of variant.SerializeSignature>;R=<hex R.Bytes()>;s=<hex>".
//   - cfg.Message is the byte message; for Mina it is wrapped as ROInput.AddString(string(msg)).
//   - No `testing` import; deterministic.
package lindell22

import (
	"fmt"
	"math/big"
	"sync"
	"time"

	"github.com/bronlabs/bron-crypto/pkg/base/algebra"
	"github.com/bronlabs/bron-crypto/pkg/base/curves/k256"
	"github.com/bronlabs/bron-crypto/pkg/base/curves/p256"
	"github.com/bronlabs/bron-crypto/pkg/base/curves/pasta"
	"github.com/bronlabs/bron-crypto/pkg/base/datastructures/hashmap"
	rsess "github.com/bronlabs/bron-crypto/pkg/mpc/session"
	"github.com/bronlabs/bron-crypto/pkg/mpc/sharing"
	mpcschnorr "github.com/bronlabs/bron-crypto/pkg/mpc/signatures/schnorr"
	rl22 "github.com/bronlabs/bron-crypto/pkg/mpc/signatures/schnorr/lindell22"
	"github.com/bronlabs/bron-crypto/pkg/mpc/signatures/schnorr/lindell22/keygen"
	"github.com/bronlabs/bron-crypto/pkg/mpc/signatures/schnorr/lindell22/signing"
	"github.com/bronlabs/bron-crypto/pkg/network"
	"github.com/bronlabs/bron-crypto/pkg/proofs/sigma/compiler/fiatshamir"
	"github.com/bronlabs/bron-crypto/pkg/signatures/schnorrlike"
	"github.com/bronlabs/bron-crypto/pkg/signatures/schnorrlike/bip340"
	"github.com/bronlabs/bron-crypto/pkg/signatures/schnorrlike/mina"
	vanilla "github.com/bronlabs/bron-crypto/pkg/signatures/schnorrlike/schnorr"

	"verif/harness/internal/drive"
	ddkls "verif/harness/internal/drive/dkls23"
	"verif/harness/internal/drive/keys"
	"verif/harness/internal/vh"
)

// Config of one run.
type Config struct {
	keys.Common
	Policy  string
	Variant string
	Hash    string
}

// Partial is a party's partial signature.
type Partial struct {
	E *big.Int
	R []byte // R.Bytes() of the corrected partial nonce commitment
	S *big.Int
}

// Sig is an aggregate signature.
type Sig struct {
	Wire []byte // variant.SerializeSignature
	R    []byte // R.Bytes() (compressed point)
	RX   *big.Int
	ROdd bool // parity of the affine y of R
	E, S *big.Int
	Lib  string // the library's verifier (scheme.Verifier()) on this signature: ok | reject | panic
	// LibWire: the same verifier on the signature re-parsed from Wire with the variant's own
	// deserialiser (bip340.NewSignatureFromBytes, mina.DeserializeSignature): ok | reject | panic | - (no deserialiser)
	LibWire string
}

// Result is the typed outcome.
type Result struct {
	Trace    *drive.Trace
	Quorum   []sharing.ID
	Order    *big.Int
	Secret   *big.Int
	PK       []byte // PK.Bytes()
	PKX, PKY *big.Int
	Partials map[sharing.ID]*Partial
	Sig      *Sig
	SigBy    map[sharing.ID]*Sig
	SetupErr string
	BaseMul  func(k *big.Int) []byte          // Bytes() of k·G in the variant's group
	BaseXY   func(k *big.Int) (x, y *big.Int) // affine coordinates of k·G (nil, nil for the identity)
}

var (
	regMu sync.Mutex
	reg   = map[*drive.Trace]*Result{}
)

// Run executes the protocol and returns the trace; Full(trace) gives the typed result.
func Run(cfg Config) *drive.Trace {
	res := RunFull(cfg)
	regMu.Lock()
	reg[res.Trace] = res
	regMu.Unlock()
	return res.Trace
}

// Full returns the typed result of a trace returned by Run.
func Full(tr *drive.Trace) *Result {
	regMu.Lock()
	defer regMu.Unlock()
	return reg[tr]
}

// Forget releases what Run remembered.
func Forget(tr *drive.Trace) {
	regMu.Lock()
	delete(reg, tr)
	regMu.Unlock()
}

// RunFull executes the protocol.
func RunFull(cfg Config) *Result {
	bad := func(msg string) *Result {
		e := keys.NewEngine("lindell22-"+cfg.Variant, cfg.Common)
		return &Result{Trace: e.Tr, SetupErr: msg}
	}
	prng := vh.NewRng(cfg.Seed, cfg.Prop, "scheme", 0)
	switch cfg.Variant {
	case "", "bip340":
		sch, err := bip340.NewScheme(prng)
		if err != nil {
			return bad(err.Error())
		}
		return run(cfg, k256.NewCurve(), sch, bip340.Message(cfg.Message), bip340.NewSignatureFromBytes)
	case "mina":
		sch, err := mina.NewRandomisedScheme(mina.MainNet, prng)
		if err != nil {
			return bad(err.Error())
		}
		msg := new(mina.ROInput).Init()
		msg.AddString(string(cfg.Message))
		return run(cfg, pasta.NewPallasCurve(), sch, msg, mina.DeserializeSignature)
	case "schnorr-k256", "schnorr-k256-neg", "schnorr-k256-le":
		hf, err := ddkls.HashFunc(cfg.Hash)
		if err != nil {
			return bad(err.Error())
		}
		sch, err := vanilla.NewScheme(k256.NewCurve(), hf, cfg.Variant == "schnorr-k256-neg", cfg.Variant == "schnorr-k256-le", nil, prng)
		if err != nil {
			return bad(err.Error())
		}
		return run(cfg, k256.NewCurve(), sch, vanilla.Message(cfg.Message), nil)
	case "schnorr-p256":
		hf, err := ddkls.HashFunc(cfg.Hash)
		if err != nil {
			return bad(err.Error())
		}
		sch, err := vanilla.NewScheme(p256.NewCurve(), hf, false, false, nil, prng)
		if err != nil {
			return bad(err.Error())
		}
		return run(cfg, p256.NewCurve(), sch, vanilla.Message(cfg.Message), nil)
	}
	return bad("unknown variant " + cfg.Variant)
}

func run[
	SCH mpcschnorr.MPCFriendlyScheme[VR, GE, S, M, KG, SG, VF],
	VR mpcschnorr.MPCFriendlyVariant[GE, S, M],
	GE algebra.PrimeGroupElement[GE, S], S algebra.PrimeFieldElement[S], M schnorrlike.Message,
	KG schnorrlike.KeyGenerator[GE, S], SG schnorrlike.Signer[VR, GE, S, M], VF schnorrlike.Verifier[VR, GE, S, M],
](cfg Config, group algebra.PrimeGroup[GE, S], scheme SCH, msg M, reparse func([]byte) (*schnorrlike.Signature[GE, S], error)) *Result {
	e := keys.NewEngine("lindell22-"+cfg.Variant, cfg.Common)
	res := &Result{Trace: e.Tr, Quorum: e.IDs, Partials: map[sharing.ID]*Partial{}, SigBy: map[sharing.ID]*Sig{}}
	fail := func(format string, a ...any) *Result {
		res.SetupErr = fmt.Sprintf(format, a...)
		e.Tr.Notes = append(e.Tr.Notes, "setup: "+res.SetupErr)
		return res
	}
	sf := algebra.StructureMustBeAs[algebra.PrimeField[S]](group.ScalarStructure())
	res.Order = group.Order().Big()
	res.BaseMul = func(k *big.Int) []byte {
		s, err := sf.FromWideBytes(new(big.Int).Mod(k, res.Order).Bytes())
		if err != nil {
			return nil
		}
		return group.ScalarBaseOp(s).Bytes()
	}
	res.BaseXY = func(k *big.Int) (*big.Int, *big.Int) {
		s, err := sf.FromWideBytes(new(big.Int).Mod(k, res.Order).Bytes())
		if err != nil {
			return nil, nil
		}
		x, y, err := coords(group.ScalarBaseOp(s))
		if err != nil {
			return nil, nil
		}
		return x, y
	}
	pol, err := keys.ParsePolicy(cfg.Policy)
	if err != nil {
		return fail("policy: %v", err)
	}
	var dealt *keys.Dealt[GE, S]
	if p := vh.Safely(func() { dealt, err = keys.Material[GE, S](cfg.Common, group, pol) }); p != "" {
		return fail("dealer panicked: %s", p)
	}
	if err != nil {
		return fail("dealer: %v", err)
	}
	res.Secret = dealt.Secret.Cardinal().Big()
	res.PK = dealt.PK.Bytes()
	res.PKX, res.PKY, _ = coords(dealt.PK)
	shards := map[sharing.ID]*rl22.Shard[GE, S]{}
	for _, id := range e.IDs {
		bs, ok := dealt.Shards[id]
		if !ok {
			return fail("quorum member %d holds no shard", uint64(id))
		}
		sh, err := keygen.NewShard(bs)
		if err != nil {
			return fail("keygen.NewShard(%d): %v", uint64(id), err)
		}
		shards[id] = sh
	}
	var ctxs map[sharing.ID]*rsess.Context
	if p := vh.Safely(func() { ctxs, err = keys.Contexts(cfg.Common) }); p != "" {
		return fail("session contexts panicked: %s", p)
	}
	if err != nil {
		return fail("session contexts: %v", err)
	}
	variant := scheme.Variant()

	psigs := map[sharing.ID]*rl22.PartialSignature[GE, S]{}
	cs := map[sharing.ID]*signing.Cosigner[GE, S, M]{}
	if cfg.API == "runner" {
		runners := map[sharing.ID]network.Runner[*rl22.PartialSignature[GE, S]]{}
		e.Construct(func(id sharing.ID) error {
			r, err := signing.NewRunner[GE, S, M](ctxs[id], shards[id], fiatshamir.Name, variant, msg, e.Tr.Tapes[id])
			if err != nil {
				return err
			}
			runners[id] = r
			return nil
		})
		for id, ps := range keys.RunRunners(e, runners, 20*time.Minute) {
			psigs[id] = ps
		}
	} else {
		e.Construct(func(id sharing.ID) error {
			c, err := signing.NewCosigner[GE, S, M](ctxs[id], shards[id], fiatshamir.Name, variant, e.Tr.Tapes[id])
			if err != nil {
				return err
			}
			cs[id] = c
			return nil
		})
		b1 := map[sharing.ID]*signing.Round1Broadcast[GE, S, M]{}
		u1 := map[sharing.ID]map[sharing.ID]*signing.Round1P2P[GE, S, M]{}
		e.Each(1, func(id sharing.ID) error {
			b, u, err := cs[id].Round1()
			if err != nil {
				return err
			}
			b1[id], u1[id] = b, keys.Thaw(u)
			return nil
		})
		ib1, iu1 := keys.Deliver(e, 1, b1, u1)
		b2 := map[sharing.ID]*signing.Round2Broadcast[GE, S, M]{}
		e.Each(2, func(id sharing.ID) error {
			b, err := cs[id].Round2(keys.Freeze(ib1[id]), keys.Freeze(iu1[id]))
			if err != nil {
				return err
			}
			b2[id] = b
			return nil
		})
		ib2, _ := keys.Deliver[*signing.Round2Broadcast[GE, S, M], keys.None](e, 2, b2, nil)
		e.Each(3, func(id sharing.ID) error {
			ps, err := cs[id].Round3(keys.Freeze(ib2[id]), msg)
			if err != nil {
				return err
			}
			psigs[id] = ps
			return nil
		})
	}

	atAgg := hashmap.NewComparable[sharing.ID, *rl22.PartialSignature[GE, S]]()
	for _, id := range e.IDs {
		ps, ok := psigs[id]
		if !ok || ps == nil {
			continue
		}
		res.Partials[id] = &Partial{E: ps.Sig.E.Cardinal().Big(), R: ps.Sig.R.Bytes(), S: ps.Sig.S.Cardinal().Big()}
		got, dropped, err := drive.Pass(e.Tr, e.Hook, 3, id, 0, 0, ps)
		if err != nil || dropped {
			continue
		}
		atAgg.Put(id, got)
	}
	var anyShard *rl22.Shard[GE, S]
	for _, id := range e.IDs {
		anyShard = shards[id]
		break
	}
	pkm := anyShard.PublicKeyMaterial()
	pk := anyShard.PublicKey()
	toSig := func(s *schnorrlike.Signature[GE, S]) *Sig {
		if s == nil {
			return nil
		}
		out := &Sig{R: s.R.Bytes(), S: s.S.Cardinal().Big(), Lib: "reject"}
		if w, err := variant.SerializeSignature(s); err == nil {
			out.Wire = w
		}
		if x, y, err := coords(s.R); err == nil {
			out.RX, out.ROdd = x, y.Bit(0) == 1
		}
		if any(s.E) != nil {
			vh.Safely(func() { out.E = s.E.Cardinal().Big() })
		}
		p := vh.Safely(func() {
			vf, err := scheme.Verifier()
			if err != nil {
				return
			}
			if vf.Verify(s, pk, msg) == nil {
				out.Lib = "ok"
			}
		})
		if p != "" {
			out.Lib = "panic"
		}
		out.LibWire = "-"
		if reparse != nil && out.Wire != nil {
			out.LibWire = "reject"
			p := vh.Safely(func() {
				s2, err := reparse(out.Wire)
				if err != nil {
					return
				}
				vf, err := scheme.Verifier()
				if err != nil {
					return
				}
				if vf.Verify(s2, pk, msg) == nil {
					out.LibWire = "ok"
				}
			})
			if p != "" {
				out.LibWire = "panic"
			}
		}
		return out
	}
	text := func(s *Sig) string {
		return fmt.Sprintf("wire=%s;R=%s;s=%s", vh.Hex(s.Wire), vh.Hex(s.R), vh.ZHex(s.S))
	}
	drive.Step(e.Tr, 0, 4, func() error {
		agg, err := signing.NewAggregator(pkm, scheme)
		if err != nil {
			return err
		}
		sig, err := agg.Aggregate(atAgg.Freeze(), msg)
		if err != nil {
			return err
		}
		res.Sig = toSig(sig)
		e.Tr.Outputs[0] = text(res.Sig)
		return nil
	})
	// every party as cosigning aggregator (not reachable through the runner API)
	if cfg.API == "runner" {
		return res
	}
	e.Each(4, func(id sharing.ID) error {
		agg, err := signing.NewCosigningAggregator(cs[id], pkm, scheme)
		if err != nil {
			return err
		}
		sig, err := agg.Aggregate(atAgg.Freeze(), msg)
		if err != nil {
			return err
		}
		res.SigBy[id] = toSig(sig)
		e.Tr.Outputs[id] = text(res.SigBy[id])
		return nil
	})
	return res
}

// coords returns the affine coordinates of a point through its AffineX/AffineY methods.
func coords(p any) (x, y *big.Int, err error) {
	type card interface{ Big() *big.Int }
	switch q := p.(type) {
	case *k256.Point:
		ax, e1 := q.AffineX()
		ay, e2 := q.AffineY()
		if e1 != nil || e2 != nil {
			return nil, nil, fmt.Errorf("no affine coordinates")
		}
		return ax.Cardinal().Big(), ay.Cardinal().Big(), nil
	case *p256.Point:
		ax, e1 := q.AffineX()
		ay, e2 := q.AffineY()
		if e1 != nil || e2 != nil {
			return nil, nil, fmt.Errorf("no affine coordinates")
		}
		return ax.Cardinal().Big(), ay.Cardinal().Big(), nil
	case *pasta.PallasPoint:
		ax, e1 := q.AffineX()
		ay, e2 := q.AffineY()
		if e1 != nil || e2 != nil {
			return nil, nil, fmt.Errorf("no affine coordinates")
		}
		return ax.Cardinal().Big(), ay.Cardinal().Big(), nil
	}
	return nil, nil, fmt.Errorf("unsupported point type %T", p)
}
