// Package hjky drives the real HJKY zero-sharing protocol of
// /repo/pkg/mpc/zero/hjky (Participant.Round1, Round2) round by round, exactly as the
// package's own rounds_test.go does, under the shared conventions of
// verif/harness/internal/drive.
//
//	res := hjky.RunFull(hjky.Config[*k256.Point, *k256.Scalar]{Seed: s, Prop: "C06", Group: k256.NewCurve(), Access: ac})
//	tr  := hjky.Run(cfg)                       // same, returns only the trace
//	out := hjky.Outputs[*k256.Point, *k256.Scalar](tr) // typed outputs of the parties that completed
//
// Conventions
//
//   - The session quorum is Access.Shareholders().  Contexts come from cfg.Contexts
//     (cloned before use) or, when nil, from the real session setup driven by
//     verif/harness/internal/drive/session with tape labels label+".s" (seeded directly with
//     session.NewContext should that setup not complete, see SessionContexts).
//   - Every party has its own recording drive.Tape over the stream
//     vh.NewRng(cfg.Seed, cfg.Prop, "tape/"+label, int(id)); label = cfg.Labels[id],
//     default "a".  Two runs that differ only in one party's label differ only in that
//     party's randomness.  tape.Mark is "r0" during construction, "r1" in Round1, "r2" in Round2.
//     (Round1 makes D reads of 48 bytes for a 256-bit field: the random column of the
//     dealing, whose first entry is then overwritten by the secret 0.)
//   - Wire messages carry the number of the round function that PRODUCED them:
//     round 1: Round1Broadcast (To == 0) and Round1P2P (To == recipient).
//     Every message is passed once per recipient through drive.Pass (CBOR round trip +
//     hook); senders ascending, recipients ascending, a sender's broadcast before its
//     unicast to the same recipient.
//   - Every party step runs inside drive.Step.  A party with a non-ok verdict stops; the
//     others continue (they find its message missing and reject with blame, as the real
//     round functions do).  A dropped message is absent from the inbox; an undecodable
//     one makes the recipient reject in the receiving round.
//   - Trace.Outputs[id] of a party that completed:
//     "vv=<hex point>,...;pub=<id>:<hex point>/...|..." (verification vector of the summed zero
//     sharing; per-holder lifted shares derived from it).  The secret zero share is only
//     available through Outputs().
//   - Deterministic, no goroutines, no `testing` import.
package hjky

import (
	"fmt"
	"sort"
	"strings"
	"sync"

	"github.com/bronlabs/bron-crypto/pkg/base/algebra"
	ds "github.com/bronlabs/bron-crypto/pkg/base/datastructures"
	"github.com/bronlabs/bron-crypto/pkg/base/datastructures/hashmap"
	"github.com/bronlabs/bron-crypto/pkg/base/datastructures/hashset"
	rsess "github.com/bronlabs/bron-crypto/pkg/mpc/session"
	"github.com/bronlabs/bron-crypto/pkg/mpc/sharing"
	"github.com/bronlabs/bron-crypto/pkg/mpc/sharing/accessstructures"
	"github.com/bronlabs/bron-crypto/pkg/mpc/sharing/scheme/kw/msp"
	"github.com/bronlabs/bron-crypto/pkg/mpc/sharing/vss/feldman"
	rhjky "github.com/bronlabs/bron-crypto/pkg/mpc/zero/hjky"

	"verif/harness/internal/drive"
	dsess "verif/harness/internal/drive/session"
	"verif/harness/internal/vh"
)

// Proto is Trace.Proto / Msg.Proto of this driver.
const Proto = "hjky"

// Config of one run.
type Config[G algebra.PrimeGroupElement[G, S], S algebra.PrimeFieldElement[S]] struct {
	Seed     int64
	Prop     string
	Labels   map[sharing.ID]string // tape label per party, default "a"
	Hook     drive.Hook            // nil = honest delivery
	Group    algebra.PrimeGroup[G, S]
	Access   accessstructures.Monotone     // the zero sharing's access structure; its shareholders run the protocol
	Contexts map[sharing.ID]*rsess.Context // optional (cloned); nil = run the real session setup
}

// Output of one party.
type Output[G algebra.PrimeGroupElement[G, S], S algebra.PrimeFieldElement[S]] struct {
	Share *feldman.Share[S]
	VV    *feldman.VerificationVector[G, S]
}

// Result is everything a check may want from one run (typed).
type Result[G algebra.PrimeGroupElement[G, S], S algebra.PrimeFieldElement[S]] struct {
	Trace   *drive.Trace
	Session *drive.Trace // trace of the session setup, nil when contexts were supplied
	IDs     []sharing.ID // ascending
	Out     map[sharing.ID]*Output[G, S]
	// messages AS SENT (before the hook)
	R1B map[sharing.ID]*rhjky.Round1Broadcast[G, S]
	R1U map[sharing.ID]map[sharing.ID]*rhjky.Round1P2P[G, S]
}

var (
	regMu sync.Mutex
	reg   = map[*drive.Trace]any{}
)

// Run executes the protocol and returns the trace; Outputs(trace) gives the typed outputs.
func Run[G algebra.PrimeGroupElement[G, S], S algebra.PrimeFieldElement[S]](cfg Config[G, S]) *drive.Trace {
	res := RunFull(cfg)
	regMu.Lock()
	reg[res.Trace] = res
	regMu.Unlock()
	return res.Trace
}

// Full returns the typed result belonging to a trace returned by Run (nil otherwise).
func Full[G algebra.PrimeGroupElement[G, S], S algebra.PrimeFieldElement[S]](tr *drive.Trace) *Result[G, S] {
	regMu.Lock()
	defer regMu.Unlock()
	r, _ := reg[tr].(*Result[G, S])
	return r
}

// Outputs returns the zero shares / verification vectors of the parties that completed.
func Outputs[G algebra.PrimeGroupElement[G, S], S algebra.PrimeFieldElement[S]](tr *drive.Trace) map[sharing.ID]*Output[G, S] {
	if r := Full[G, S](tr); r != nil {
		return r.Out
	}
	return nil
}

// Forget releases what Run remembered about tr.
func Forget(tr *drive.Trace) {
	regMu.Lock()
	delete(reg, tr)
	regMu.Unlock()
}

// Label returns the tape label of id under labels (default "a").
func Label(labels map[sharing.ID]string, id sharing.ID) string {
	if l, ok := labels[id]; ok && l != "" {
		return l
	}
	return "a"
}

// SessionContexts runs the real session setup for quorum with tape labels label+".s"
// and returns the contexts (one per party) and the setup trace.  If the setup does not
// complete for every party (a matter of C10, not of the protocol driven here) the contexts
// are built directly with session.NewContext from seeds drawn from
// vh.NewRng(seed, prop, "ctx", 0) — what pkg/mpc/session/testutils.MakeRandomContexts does —
// and the setup trace gets a note.
func SessionContexts(seed int64, prop string, quorum []sharing.ID, labels map[sharing.ID]string, hook drive.Hook) (map[sharing.ID]*rsess.Context, *drive.Trace) {
	sl := map[sharing.ID]string{}
	for _, id := range quorum {
		sl[id] = Label(labels, id) + ".s"
	}
	var str *drive.Trace
	ctxs := map[sharing.ID]*rsess.Context{}
	p := vh.Safely(func() {
		str = dsess.Run(dsess.Config{Seed: seed, Prop: prop, Quorum: quorum, Labels: sl, Hook: hook})
		for id, c := range dsess.Contexts(str) {
			ctxs[id] = c.Clone()
		}
		dsess.Forget(str)
	})
	if str == nil {
		str = drive.NewTrace(dsess.Proto)
	}
	complete := p == ""
	for _, id := range quorum {
		if ctxs[id] == nil {
			complete = false
		}
	}
	if complete {
		return ctxs, str
	}
	str.Notes = append(str.Notes, "session setup did not complete ("+p+"); contexts seeded directly")
	ctxs = map[sharing.ID]*rsess.Context{}
	rng := vh.NewRng(seed, prop, "ctx", 0)
	ids := append([]sharing.ID(nil), quorum...)
	sort.Slice(ids, func(i, j int) bool { return ids[i] < ids[j] })
	qs := hashset.NewComparable(ids...).Freeze()
	common := rng.Bytes(64)
	pair := map[sharing.ID]map[sharing.ID][]byte{}
	for _, id := range ids {
		pair[id] = map[sharing.ID][]byte{}
	}
	for i := range ids {
		for j := i + 1; j < len(ids); j++ {
			b := rng.Bytes(64)
			pair[ids[i]][ids[j]] = b
			pair[ids[j]][ids[i]] = b
		}
	}
	for _, id := range ids {
		if c, err := rsess.NewContext(id, qs, common, pair[id]); err == nil {
			ctxs[id] = c
		}
	}
	return ctxs, str
}

// Freeze turns a native map into the library's immutable map.
func Freeze[M any](m map[sharing.ID]M) ds.Map[sharing.ID, M] {
	h := hashmap.NewComparable[sharing.ID, M]()
	for k, v := range m {
		h.Put(k, v)
	}
	return h.Freeze()
}

// PointsText renders a verification vector as comma separated hex points.
func PointsText[G algebra.PrimeGroupElement[G, S], S algebra.PrimeFieldElement[S]](v *feldman.VerificationVector[G, S]) string {
	if v == nil {
		return "nil"
	}
	rows, _ := v.Value().Dimensions()
	parts := make([]string, rows)
	for i := 0; i < rows; i++ {
		e, err := v.Value().Get(i, 0)
		if err != nil {
			parts[i] = "ERR"
			continue
		}
		parts[i] = vh.Hex(e.Bytes())
	}
	return strings.Join(parts, ",")
}

// PublicText renders "vv=...;pub=id:pt/pt|id:pt" for a verification vector under an MSP.
func PublicText[G algebra.PrimeGroupElement[G, S], S algebra.PrimeFieldElement[S]](v *feldman.VerificationVector[G, S], m *msp.MSP[S]) string {
	var sb strings.Builder
	sb.WriteString("vv=" + PointsText(v))
	ldf, err := feldman.NewLiftedDealerFunc(v, m)
	if err != nil {
		sb.WriteString(";pub=ERR")
		return sb.String()
	}
	ids := m.Shareholders().List()
	sort.Slice(ids, func(i, j int) bool { return ids[i] < ids[j] })
	parts := make([]string, 0, len(ids))
	for _, id := range ids {
		ls, err := ldf.ShareOf(id)
		if err != nil {
			parts = append(parts, fmt.Sprintf("%d:ERR", uint64(id)))
			continue
		}
		ps := make([]string, len(ls.Value()))
		for i, p := range ls.Value() {
			ps[i] = vh.Hex(p.Bytes())
		}
		parts = append(parts, fmt.Sprintf("%d:%s", uint64(id), strings.Join(ps, "/")))
	}
	sb.WriteString(";pub=" + strings.Join(parts, "|"))
	return sb.String()
}

// RunFull executes the protocol and returns the typed result.
func RunFull[G algebra.PrimeGroupElement[G, S], S algebra.PrimeFieldElement[S]](cfg Config[G, S]) *Result[G, S] {
	tr := drive.NewTrace(Proto)
	ids := cfg.Access.Shareholders().List()
	sort.Slice(ids, func(i, j int) bool { return ids[i] < ids[j] })
	res := &Result[G, S]{
		Trace: tr, IDs: ids,
		Out: map[sharing.ID]*Output[G, S]{},
		R1B: map[sharing.ID]*rhjky.Round1Broadcast[G, S]{},
		R1U: map[sharing.ID]map[sharing.ID]*rhjky.Round1P2P[G, S]{},
	}
	ctxs := map[sharing.ID]*rsess.Context{}
	if cfg.Contexts != nil {
		for id, c := range cfg.Contexts {
			if c != nil {
				ctxs[id] = c.Clone()
			}
		}
	} else {
		ctxs, res.Session = SessionContexts(cfg.Seed, cfg.Prop, ids, cfg.Labels, nil)
	}

	parts := map[sharing.ID]*rhjky.Participant[G, S]{}
	alive := func(id sharing.ID) bool {
		v, ok := tr.Verdicts[id]
		return parts[id] != nil && (!ok || v.Class == "ok")
	}

	// construction (round 0)
	for _, id := range ids {
		tape := drive.NewTape(vh.NewRng(cfg.Seed, cfg.Prop, "tape/"+Label(cfg.Labels, id), int(id)))
		tape.Mark = "r0"
		tr.Tapes[id] = tape
		drive.Step(tr, id, 0, func() error {
			ctx := ctxs[id]
			if ctx == nil {
				return fmt.Errorf("no session context for party %d", uint64(id))
			}
			p, err := rhjky.NewParticipant(ctx, cfg.Access, cfg.Group, tape)
			if err != nil {
				return err
			}
			parts[id] = p
			return nil
		})
	}

	// ---- round 1
	for _, id := range ids {
		if !alive(id) {
			continue
		}
		tr.Tapes[id].Mark = "r1"
		drive.Step(tr, id, 1, func() error {
			b, u, err := parts[id].Round1()
			if err != nil {
				return err
			}
			res.R1B[id] = b
			res.R1U[id] = map[sharing.ID]*rhjky.Round1P2P[G, S]{}
			for to, m := range u.Iter() {
				res.R1U[id][to] = m
			}
			return nil
		})
	}
	in1b, in1u := DeliverBU(tr, cfg.Hook, 1, ids, alive, res.R1B, res.R1U)

	// ---- round 2
	var mspM *msp.MSP[S]
	for _, id := range ids {
		if !alive(id) {
			continue
		}
		tr.Tapes[id].Mark = "r2"
		drive.Step(tr, id, 2, func() error {
			share, vv, err := parts[id].Round2(Freeze(in1b[id]), Freeze(in1u[id]))
			if err != nil {
				return err
			}
			res.Out[id] = &Output[G, S]{Share: share, VV: vv}
			return nil
		})
		if o := res.Out[id]; o != nil {
			if p := vh.Safely(func() {
				if mspM == nil {
					sch, err := feldman.NewScheme(cfg.Group, cfg.Access)
					if err != nil {
						panic(err)
					}
					mspM = sch.MSP()
				}
				tr.Outputs[id] = PublicText(o.VV, mspM)
			}); p != "" {
				tr.Notes = append(tr.Notes, fmt.Sprintf("output text of %d panicked: %s", uint64(id), p))
			}
		}
	}
	return res
}

// DeliverBU passes one round's broadcasts (To == 0) and unicasts to every recipient that
// was alive before delivery started; see the package comment for the order.
func DeliverBU[B any, U any](tr *drive.Trace, hook drive.Hook, round int, ids []sharing.ID, alive func(sharing.ID) bool,
	outB map[sharing.ID]B, outU map[sharing.ID]map[sharing.ID]U) (inB map[sharing.ID]map[sharing.ID]B, inU map[sharing.ID]map[sharing.ID]U) {
	inB = map[sharing.ID]map[sharing.ID]B{}
	inU = map[sharing.ID]map[sharing.ID]U{}
	for _, id := range ids {
		inB[id] = map[sharing.ID]B{}
		inU[id] = map[sharing.ID]U{}
	}
	wasAlive := map[sharing.ID]bool{}
	for _, id := range ids {
		wasAlive[id] = alive(id)
	}
	for _, from := range ids {
		if !wasAlive[from] {
			continue
		}
		for _, to := range ids {
			if to == from || !wasAlive[to] {
				continue
			}
			if outB != nil {
				if m, ok := outB[from]; ok {
					got, dropped, err := drive.Pass(tr, hook, round, from, 0, to, m)
					switch {
					case err != nil:
						drive.Step(tr, to, round+1, func() error { return err })
					case !dropped:
						inB[to][from] = got
					}
				}
			}
			if outU != nil {
				if m, ok := outU[from][to]; ok {
					got, dropped, err := drive.Pass(tr, hook, round, from, to, to, m)
					switch {
					case err != nil:
						drive.Step(tr, to, round+1, func() error { return err })
					case !dropped:
						inU[to][from] = got
					}
				}
			}
		}
	}
	return inB, inU
}
