// Package canetti drives the real Canetti-style DKG of /repo/pkg/mpc/dkg/canetti
// (Participant.Round1..Round4) round by round, exactly as the package's own
// rounds_test.go does, under the shared conventions of verif/harness/internal/drive.
//
//	res := canetti.RunFull(canetti.Config[G, S]{Seed: s, Prop: "C03", Group: g, AC: ac})
//	tr  := canetti.Run(cfg)            // same, returns only the trace
//	res  = canetti.Full[G, S](tr)      // typed result of a trace returned by Run
//	res.Shards[id]                     // *mpc.BaseShard[G, S] of every party that completed
//
// Conventions
//
//   - Parties are the shareholders of cfg.AC (ascending).  Every party has its own
//     recording drive.Tape over vh.NewRng(cfg.Seed, cfg.Prop, "tape/"+label, int(id));
//     label = cfg.Labels[id], default "a".  tape.Mark is "r0" during NewParticipant and
//     "r1".."r4" while the party executes Round1..Round4.
//     Tape layout of Round1 (what the model reads): with D = MSP().D() columns, read 0 is
//     the secret, reads 1..D the random column (entry 0 is overwritten by the secret); every
//     such read is (bits(q)+128+7)/8 bytes, little endian, reduced mod q.  Then rho
//     (rhoLen bytes), the batch-Schnorr nonce and the 32-byte hash-commitment witness.
//   - The protocol takes no NIZK compiler (its proof is the fixed zkmodule Fiat-Shamir).
//   - Session contexts: cfg.Ctxs if given (one per party, consumed), otherwise the real
//     session setup is run through verif/harness/internal/drive/session with
//     Prop = cfg.Prop+"/session" and the same seed and labels.
//   - Round numbers of messages are the number of the round function that PRODUCED them:
//     round 1: Round1Broadcast (To == 0); round 2: Round2Broadcast (To == 0) and
//     Round2P2P (To == recipient); round 3: Round3Broadcast (To == 0).  Round4 produces the
//     *mpc.BaseShard.  Every message is passed, once per recipient, through drive.Pass,
//     senders ascending, then recipients ascending, broadcast before unicast.
//   - Every party step runs inside drive.Step: an error / panic becomes the party's verdict
//     and the party stops; the others continue as far as they can.  A dropped message is
//     absent from the inbox; an undecodable one makes the recipient reject without blame in
//     the receiving round.
//   - Trace.Outputs[id] of a party that completed: gennaro.ShardText(shard) =
//     "pk=<hex>;vv=<hex>,..;pks=<id>:<hex>|<hex>,..".
//   - Deterministic, no goroutines, no `testing` import.
package canetti

import (
	"fmt"
	"sort"
	"sync"

	"github.com/bronlabs/bron-crypto/pkg/base/algebra"
	ds "github.com/bronlabs/bron-crypto/pkg/base/datastructures"
	"github.com/bronlabs/bron-crypto/pkg/base/datastructures/hashmap"
	"github.com/bronlabs/bron-crypto/pkg/mpc"
	rc "github.com/bronlabs/bron-crypto/pkg/mpc/dkg/canetti"
	rsess "github.com/bronlabs/bron-crypto/pkg/mpc/session"
	"github.com/bronlabs/bron-crypto/pkg/mpc/sharing"
	"github.com/bronlabs/bron-crypto/pkg/mpc/sharing/accessstructures"

	"verif/harness/internal/drive"
	dgen "verif/harness/internal/drive/gennaro"
	dsess "verif/harness/internal/drive/session"
	"verif/harness/internal/vh"
)

// Proto is Trace.Proto / Msg.Proto of this driver.
const Proto = "canetti"

// Config of one run.
type Config[G algebra.PrimeGroupElement[G, S], S algebra.PrimeFieldElement[S]] struct {
	Seed   int64
	Prop   string
	Labels map[sharing.ID]string
	Hook   drive.Hook
	Group  algebra.PrimeGroup[G, S]
	AC     accessstructures.Monotone
	// ACs, if set, gives a party its OWN access-structure object (same policy, independently
	// constructed); parties without an entry use AC.
	ACs  map[sharing.ID]accessstructures.Monotone
	Ctxs map[sharing.ID]*rsess.Context
}

// Result is everything a check may want from one run (typed).
type Result[G algebra.PrimeGroupElement[G, S], S algebra.PrimeFieldElement[S]] struct {
	Trace  *drive.Trace
	IDs    []sharing.ID
	Parts  map[sharing.ID]*rc.Participant[G, S]
	Shards map[sharing.ID]*mpc.BaseShard[G, S]
	// messages AS SENT (before the hook)
	R1B          map[sharing.ID]*rc.Round1Broadcast[G, S]
	R2B          map[sharing.ID]*rc.Round2Broadcast[G, S]
	R2U          map[sharing.ID]map[sharing.ID]*rc.Round2P2P[G, S]
	R3B          map[sharing.ID]*rc.Round3Broadcast[G, S]
	SessionTrace *drive.Trace
}

var (
	regMu sync.Mutex
	reg   = map[*drive.Trace]any{}
)

// Run executes the protocol and returns the trace; Full(trace) gives the typed result.
func Run[G algebra.PrimeGroupElement[G, S], S algebra.PrimeFieldElement[S]](cfg Config[G, S]) *drive.Trace {
	res := RunFull(cfg)
	regMu.Lock()
	reg[res.Trace] = res
	regMu.Unlock()
	return res.Trace
}

// Full returns the typed result belonging to a trace returned by Run (nil otherwise).
func Full[G algebra.PrimeGroupElement[G, S], S algebra.PrimeFieldElement[S]](tr *drive.Trace) *Result[G, S] {
	regMu.Lock()
	defer regMu.Unlock()
	r, _ := reg[tr].(*Result[G, S])
	return r
}

// Shards returns the shards of the parties that completed the run that produced tr.
func Shards[G algebra.PrimeGroupElement[G, S], S algebra.PrimeFieldElement[S]](tr *drive.Trace) map[sharing.ID]*mpc.BaseShard[G, S] {
	if r := Full[G, S](tr); r != nil {
		return r.Shards
	}
	return nil
}

// Forget releases what Run remembered about tr.
func Forget(tr *drive.Trace) {
	regMu.Lock()
	delete(reg, tr)
	regMu.Unlock()
}

func freeze[M any](m map[sharing.ID]M) ds.Map[sharing.ID, M] {
	h := hashmap.NewComparable[sharing.ID, M]()
	for k, v := range m {
		h.Put(k, v)
	}
	return h.Freeze()
}

func acOf(ac accessstructures.Monotone, acs map[sharing.ID]accessstructures.Monotone, id sharing.ID) accessstructures.Monotone {
	if a, ok := acs[id]; ok && a != nil {
		return a
	}
	return ac
}

func label(labels map[sharing.ID]string, id sharing.ID) string {
	if l, ok := labels[id]; ok && l != "" {
		return l
	}
	return "a"
}

// RunFull executes the protocol and returns the typed result.
func RunFull[G algebra.PrimeGroupElement[G, S], S algebra.PrimeFieldElement[S]](cfg Config[G, S]) *Result[G, S] {
	tr := drive.NewTrace(Proto)
	ids := cfg.AC.Shareholders().List()
	sort.Slice(ids, func(i, j int) bool { return ids[i] < ids[j] })
	res := &Result[G, S]{
		Trace: tr, IDs: ids,
		Parts:  map[sharing.ID]*rc.Participant[G, S]{},
		Shards: map[sharing.ID]*mpc.BaseShard[G, S]{},
		R1B:    map[sharing.ID]*rc.Round1Broadcast[G, S]{},
		R2B:    map[sharing.ID]*rc.Round2Broadcast[G, S]{},
		R2U:    map[sharing.ID]map[sharing.ID]*rc.Round2P2P[G, S]{},
		R3B:    map[sharing.ID]*rc.Round3Broadcast[G, S]{},
	}
	ctxs := cfg.Ctxs
	if ctxs == nil {
		st := dsess.RunFull(dsess.Config{Seed: cfg.Seed, Prop: cfg.Prop + "/session", Quorum: ids, Labels: cfg.Labels})
		res.SessionTrace = st.Trace
		ctxs = st.Ctx
	}
	alive := func(id sharing.ID) bool {
		v, ok := tr.Verdicts[id]
		return res.Parts[id] != nil && (!ok || v.Class == "ok")
	}

	// construction (round 0)
	for _, id := range ids {
		tape := drive.NewTape(vh.NewRng(cfg.Seed, cfg.Prop, "tape/"+label(cfg.Labels, id), int(id)))
		tape.Mark = "r0"
		tr.Tapes[id] = tape
		drive.Step(tr, id, 0, func() error {
			ctx := ctxs[id]
			if ctx == nil {
				return fmt.Errorf("no session context for party %d", uint64(id))
			}
			p, err := rc.NewParticipant(ctx, acOf(cfg.AC, cfg.ACs, id), cfg.Group, &dgen.LockedReader{R: tape})
			if err != nil {
				return err
			}
			res.Parts[id] = p
			return nil
		})
	}

	// ---- round 1
	for _, id := range ids {
		if !alive(id) {
			continue
		}
		tr.Tapes[id].Mark = "r1"
		drive.Step(tr, id, 1, func() error {
			b, err := res.Parts[id].Round1()
			if err != nil {
				return err
			}
			res.R1B[id] = b
			return nil
		})
	}
	in1b, _ := dgen.DeliverBU[*rc.Round1Broadcast[G, S], struct{}](tr, cfg.Hook, 1, ids, alive, res.R1B, nil)

	// ---- round 2
	for _, id := range ids {
		if !alive(id) {
			continue
		}
		tr.Tapes[id].Mark = "r2"
		drive.Step(tr, id, 2, func() error {
			b, u, err := res.Parts[id].Round2(freeze(in1b[id]))
			if err != nil {
				return err
			}
			res.R2B[id] = b
			res.R2U[id] = map[sharing.ID]*rc.Round2P2P[G, S]{}
			for to, m := range u.Iter() {
				res.R2U[id][to] = m
			}
			return nil
		})
	}
	in2b, in2u := dgen.DeliverBU(tr, cfg.Hook, 2, ids, alive, res.R2B, res.R2U)

	// ---- round 3
	for _, id := range ids {
		if !alive(id) {
			continue
		}
		tr.Tapes[id].Mark = "r3"
		drive.Step(tr, id, 3, func() error {
			b, err := res.Parts[id].Round3(freeze(in2b[id]), freeze(in2u[id]))
			if err != nil {
				return err
			}
			res.R3B[id] = b
			return nil
		})
	}
	in3b, _ := dgen.DeliverBU[*rc.Round3Broadcast[G, S], struct{}](tr, cfg.Hook, 3, ids, alive, res.R3B, nil)

	// ---- round 4
	for _, id := range ids {
		if !alive(id) {
			continue
		}
		tr.Tapes[id].Mark = "r4"
		drive.Step(tr, id, 4, func() error {
			sh, err := res.Parts[id].Round4(freeze(in3b[id]))
			if err != nil {
				return err
			}
			res.Shards[id] = sh
			return nil
		})
		if sh := res.Shards[id]; sh != nil {
			if p := vh.Safely(func() { tr.Outputs[id] = dgen.ShardText(sh) }); p != "" {
				tr.Notes = append(tr.Notes, fmt.Sprintf("output text of %d panicked: %s", uint64(id), p))
			}
		}
	}
	return res
}
