// Package otvole drives the two-party oblivious-transfer and multiplication sub-protocols
// of /repo directly (they are otherwise only reached inside DKLs23): the endemic base OT
// pkg/ot/base/ecbbot (Sender.Round1/Round3, Receiver.Round2) and the random vector OLE
// pkg/mpc/rvole/bbot (Alice.Round1/Round3, Bob.Round2/Round4), under the conventions of
// verif/harness/internal/drive.
//
//	res := otvole.RunFull(otvole.Config{Seed: s, Prop: "C07", Kind: "ecbbot", Xi: 128, L: 1})
//	res := otvole.RunFull(otvole.Config{Seed: s, Prop: "C07", Kind: "rvole-bbot", L: 2})
//
// Conventions
//
//   - Party 1 is the OT sender / Alice, party 2 the OT receiver / Bob.  Each has its own
//     recording drive.Tape over vh.NewRng(Seed, Prop, "tape/"+label, id), label =
//     cfg.Labels[id] (default "a"); tape.Mark is "new" during construction and "r<k>" while
//     the party executes Round<k>.
//   - Inputs that are not randomness of the protocol do not come from the tapes: the OT
//     receiver's choice bits are vh.NewRng(Seed, Prop, "choices", 0) (Xi/8 bytes), Alice's
//     input vector a (L scalars) is vh.NewRng(Seed, Prop, "vole-a", 0).  (In rvole/bbot Bob
//     draws his OT choice bits beta from his own prng: they are on his tape.)
//   - Session contexts: session.NewContext for the quorum {1,2} from
//     vh.NewRng(Seed, Prop, "ctx", 0) — independent of the labels.
//   - Messages (round = number of the round function that produced them), all unicast through
//     drive.Pass: ecbbot 1: 1->2 Round1P2P, 2: 2->1 Round2P2P;  rvole-bbot 1: 1->2, 2: 2->1, 3: 1->2.
//   - Trace.Outputs: ecbbot  [1] = "pads=<sha256 of all 2·Xi·L sender messages>",
//     [2] = "chosen=<sha256 of the Xi·L receiver messages>";  rvole-bbot  [1] = "c=<hex>,..",
//     [2] = "b=<hex>;d=<hex>,..".
//   - Kind "softspoken-ext": the SoftSpoken OT extension pkg/ot/extension/softspoken on its own.
//     Party 1 is the extension RECEIVER (Receiver.Round1), party 2 the extension sender
//     (Sender.Round2).  Choice bits (Xi/8 bytes) from vh.NewRng(Seed, Prop, "choices", 0), the
//     base-OT seeds (Kappa pairs of 32 bytes and the sender's Kappa choice bits) from
//     vh.NewRng(Seed, Prop, "base-seeds", 0), contexts as above: everything but the tapes is fixed.
//     Message: round 1: 1->2 Round1P2P.  Outputs [1] = "chosen=<sha256 of the receiver messages>",
//     [2] = "pads=<sha256 of the sender messages>".
//   - cfg.Flip, if set, XORs 0xff into the bytes of the given party's tape in the stream range
//     [Off, Off+N) (a tape that differs from the unflipped one in exactly one segment).
//   - k256 only; no `testing` import; deterministic.
package otvole

import (
	"crypto/sha256"
	"fmt"
	"io"
	"math/big"
	"strings"

	"github.com/bronlabs/bron-crypto/pkg/base/curves/k256"
	"github.com/bronlabs/bron-crypto/pkg/base/datastructures/hashset"
	rvole_bbot "github.com/bronlabs/bron-crypto/pkg/mpc/rvole/bbot"
	rsess "github.com/bronlabs/bron-crypto/pkg/mpc/session"
	"github.com/bronlabs/bron-crypto/pkg/mpc/sharing"
	"github.com/bronlabs/bron-crypto/pkg/ot"
	"github.com/bronlabs/bron-crypto/pkg/ot/base/ecbbot"
	"github.com/bronlabs/bron-crypto/pkg/ot/base/vsot"
	"github.com/bronlabs/bron-crypto/pkg/ot/extension/softspoken"

	"verif/harness/internal/drive"
	"verif/harness/internal/vh"
)

// Config of one run.
type Config struct {
	Seed   int64
	Prop   string
	Labels map[sharing.ID]string
	Hook   drive.Hook
	Kind   string // "ecbbot" | "rvole-bbot" | "softspoken-ext"
	Flip   *Flip  // optional: flip one segment of one party's tape
	Xi     int    // ecbbot: batch size (multiple of 8)
	L      int    // ecbbot: block length; rvole-bbot: vector length
}

// Flip names one segment of one party's random stream.
type Flip struct {
	Party  sharing.ID
	Off, N int
}

type flipReader struct {
	src    io.Reader
	pos    int
	off, n int
}

func (f *flipReader) Read(p []byte) (int, error) {
	n, err := f.src.Read(p)
	for i := 0; i < n; i++ {
		if q := f.pos + i; q >= f.off && q < f.off+f.n {
			p[i] ^= 0xff
		}
	}
	f.pos += n
	return n, err
}

// Result is the typed outcome.
type Result struct {
	Trace    *drive.Trace
	Order    *big.Int
	SetupErr string
	BaseMul  func(k *big.Int) []byte // compressed k·G on k256
	// softspoken-ext: the fixed public inputs of the run (session id, base-OT seed pairs)
	Sid    []byte
	M0, M1 [][]byte
}

func contexts(seed int64, prop string) (map[sharing.ID]*rsess.Context, error) {
	r := vh.NewRng(seed, prop, "ctx", 0)
	common, pair := r.Bytes(64), r.Bytes(64)
	q := hashset.NewComparable[sharing.ID](1, 2).Freeze()
	out := map[sharing.ID]*rsess.Context{}
	for _, id := range []sharing.ID{1, 2} {
		c, err := rsess.NewContext(id, q, common, map[sharing.ID][]byte{3 - id: pair})
		if err != nil {
			return nil, err
		}
		out[id] = c
	}
	return out, nil
}

func tapes(tr *drive.Trace, cfg Config) {
	for _, id := range []sharing.ID{1, 2} {
		label := "a"
		if l, ok := cfg.Labels[id]; ok && l != "" {
			label = l
		}
		var src io.Reader = vh.NewRng(cfg.Seed, cfg.Prop, "tape/"+label, int(id))
		if cfg.Flip != nil && cfg.Flip.Party == id {
			src = &flipReader{src: src, off: cfg.Flip.Off, n: cfg.Flip.N}
		}
		t := drive.NewTape(src)
		t.Mark = "new"
		tr.Tapes[id] = t
	}
}

func alive(tr *drive.Trace, id sharing.ID) bool {
	v, ok := tr.Verdicts[id]
	return !ok || v.Class == "ok"
}

// pass sends m from `from` to the other party; ok is false if nothing usable arrived.
func pass[M any](tr *drive.Trace, hook drive.Hook, round int, from sharing.ID, m M) (M, bool) {
	to := 3 - from
	got, dropped, err := drive.Pass(tr, hook, round, from, to, to, m)
	if err != nil {
		drive.Step(tr, to, round+1, func() error { return err })
		return got, false
	}
	if dropped {
		drive.Step(tr, to, round+1, func() error { return fmt.Errorf("message of round %d missing", round) })
		return got, false
	}
	return got, true
}

// RunFull executes the protocol.
func RunFull(cfg Config) *Result {
	tr := drive.NewTrace("otvole-" + cfg.Kind)
	res := &Result{Trace: tr}
	curve := k256.NewCurve()
	sf := k256.NewScalarField()
	res.Order = sf.Order().Big()
	res.BaseMul = func(k *big.Int) []byte {
		s, err := sf.FromWideBytes(new(big.Int).Mod(k, res.Order).Bytes())
		if err != nil {
			return nil
		}
		return curve.ScalarBaseMul(s).ToCompressed()
	}
	tapes(tr, cfg)
	ctxs, err := contexts(cfg.Seed, cfg.Prop)
	if err != nil {
		res.SetupErr = err.Error()
		return res
	}
	mark := func(id sharing.ID, round int) { tr.Tapes[id].Mark = fmt.Sprintf("r%d", round) }
	switch cfg.Kind {
	case "ecbbot":
		suite, err := ecbbot.NewSuite(cfg.Xi, cfg.L, curve)
		if err != nil {
			res.SetupErr = err.Error()
			return res
		}
		choices := vh.NewRng(cfg.Seed, cfg.Prop, "choices", 0).Bytes(cfg.Xi / 8)
		var snd *ecbbot.Sender[*k256.Point, *k256.Scalar]
		var rcv *ecbbot.Receiver[*k256.Point, *k256.Scalar]
		drive.Step(tr, 1, 0, func() (err error) { snd, err = ecbbot.NewSender(ctxs[1], suite, tr.Tapes[1]); return })
		drive.Step(tr, 2, 0, func() (err error) { rcv, err = ecbbot.NewReceiver(ctxs[2], suite, tr.Tapes[2]); return })
		if !alive(tr, 1) || !alive(tr, 2) {
			return res
		}
		var r1 *ecbbot.Round1P2P[*k256.Point, *k256.Scalar]
		mark(1, 1)
		if drive.Step(tr, 1, 1, func() (err error) { r1, err = snd.Round1(); return }).Class != "ok" {
			return res
		}
		in1, ok := pass(tr, cfg.Hook, 1, 1, r1)
		if !ok {
			return res
		}
		var r2 *ecbbot.Round2P2P[*k256.Point, *k256.Scalar]
		var rout *ecbbot.ReceiverOutput[*k256.Scalar]
		mark(2, 2)
		if drive.Step(tr, 2, 2, func() (err error) { r2, rout, err = rcv.Round2(in1, append([]byte{}, choices...)); return }).Class != "ok" {
			return res
		}
		h := sha256.New()
		for i := range rout.Messages {
			for l := range rout.Messages[i] {
				h.Write(rout.Messages[i][l].Bytes())
			}
		}
		tr.Outputs[2] = "chosen=" + vh.Hex(h.Sum(nil))
		in2, ok := pass(tr, cfg.Hook, 2, 2, r2)
		if !ok {
			return res
		}
		var sout *ecbbot.SenderOutput[*k256.Scalar]
		mark(1, 3)
		if drive.Step(tr, 1, 3, func() (err error) { sout, err = snd.Round3(in2); return }).Class != "ok" {
			return res
		}
		h = sha256.New()
		for i := range sout.Messages {
			for c := 0; c < 2; c++ {
				for l := range sout.Messages[i][c] {
					h.Write(sout.Messages[i][c][l].Bytes())
				}
			}
		}
		tr.Outputs[1] = "pads=" + vh.Hex(h.Sum(nil))
	case "rvole-bbot":
		suite, err := rvole_bbot.NewSuite(cfg.L, curve)
		if err != nil {
			res.SetupErr = err.Error()
			return res
		}
		ar := vh.NewRng(cfg.Seed, cfg.Prop, "vole-a", 0)
		a := make([]*k256.Scalar, cfg.L)
		for i := range a {
			s, err := sf.FromWideBytes(ar.BigBelow(res.Order).Bytes())
			if err != nil {
				res.SetupErr = err.Error()
				return res
			}
			a[i] = s
		}
		var alice *rvole_bbot.Alice[*k256.Point, *k256.Scalar]
		var bob *rvole_bbot.Bob[*k256.Point, *k256.Scalar]
		drive.Step(tr, 1, 0, func() (err error) { alice, err = rvole_bbot.NewAlice(ctxs[1], suite, tr.Tapes[1]); return })
		drive.Step(tr, 2, 0, func() (err error) { bob, err = rvole_bbot.NewBob(ctxs[2], suite, tr.Tapes[2]); return })
		if !alive(tr, 1) || !alive(tr, 2) {
			return res
		}
		var r1 *rvole_bbot.Round1P2P[*k256.Point, *k256.Scalar]
		mark(1, 1)
		if drive.Step(tr, 1, 1, func() (err error) { r1, err = alice.Round1(); return }).Class != "ok" {
			return res
		}
		in1, ok := pass(tr, cfg.Hook, 1, 1, r1)
		if !ok {
			return res
		}
		var r2 *rvole_bbot.Round2P2P[*k256.Point, *k256.Scalar]
		var b *k256.Scalar
		mark(2, 2)
		if drive.Step(tr, 2, 2, func() (err error) { r2, b, err = bob.Round2(in1); return }).Class != "ok" {
			return res
		}
		in2, ok := pass(tr, cfg.Hook, 2, 2, r2)
		if !ok {
			return res
		}
		var r3 *rvole_bbot.Round3P2P[*k256.Point, *k256.Scalar]
		var c []*k256.Scalar
		mark(1, 3)
		if drive.Step(tr, 1, 3, func() (err error) { r3, c, err = alice.Round3(in2, a); return }).Class != "ok" {
			return res
		}
		tr.Outputs[1] = "c=" + scalars(c)
		in3, ok := pass(tr, cfg.Hook, 3, 1, r3)
		if !ok {
			return res
		}
		var d []*k256.Scalar
		mark(2, 4)
		if drive.Step(tr, 2, 4, func() (err error) { d, err = bob.Round4(in3); return }).Class != "ok" {
			return res
		}
		tr.Outputs[2] = "b=" + vh.Hex(b.Bytes()) + ";d=" + scalars(d)
	case "softspoken-ext":
		suite, err := softspoken.NewSuite(cfg.Xi, cfg.L, sha256.New)
		if err != nil {
			res.SetupErr = err.Error()
			return res
		}
		choices := vh.NewRng(cfg.Seed, cfg.Prop, "choices", 0).Bytes(cfg.Xi / 8)
		br := vh.NewRng(cfg.Seed, cfg.Prop, "base-seeds", 0)
		k := softspoken.Kappa
		delta := br.Bytes(k / 8)
		sSeeds := &vsot.SenderOutput{SenderOutput: ot.SenderOutput[[]byte]{Messages: make([][2][][]byte, k)}}
		rSeeds := &vsot.ReceiverOutput{ReceiverOutput: ot.ReceiverOutput[[]byte]{Choices: append([]byte{}, delta...), Messages: make([][][]byte, k)}}
		for i := 0; i < k; i++ {
			m0, m1 := br.Bytes(32), br.Bytes(32)
			res.M0, res.M1 = append(res.M0, m0), append(res.M1, m1)
			sSeeds.Messages[i][0], sSeeds.Messages[i][1] = [][]byte{m0}, [][]byte{m1}
			if (delta[i/8]>>(i%8))&1 == 1 {
				rSeeds.Messages[i] = [][]byte{m1}
			} else {
				rSeeds.Messages[i] = [][]byte{m0}
			}
		}
		sid := ctxs[1].SessionID()
		res.Sid = append([]byte{}, sid[:]...)
		var rcv *softspoken.Receiver
		var snd *softspoken.Sender
		drive.Step(tr, 1, 0, func() (err error) { rcv, err = softspoken.NewReceiver(ctxs[1], sSeeds, suite, tr.Tapes[1]); return })
		drive.Step(tr, 2, 0, func() (err error) { snd, err = softspoken.NewSender(ctxs[2], rSeeds, suite, tr.Tapes[2]); return })
		if !alive(tr, 1) || !alive(tr, 2) {
			return res
		}
		var r1 *softspoken.Round1P2P
		var rout *softspoken.ReceiverOutput
		mark(1, 1)
		if drive.Step(tr, 1, 1, func() (err error) { r1, rout, err = rcv.Round1(append([]byte{}, choices...)); return }).Class != "ok" {
			return res
		}
		h := sha256.New()
		for i := range rout.Messages {
			for l := range rout.Messages[i] {
				h.Write(rout.Messages[i][l])
			}
		}
		tr.Outputs[1] = "chosen=" + vh.Hex(h.Sum(nil))
		in1, ok := pass(tr, cfg.Hook, 1, 1, r1)
		if !ok {
			return res
		}
		var sout *softspoken.SenderOutput
		mark(2, 2)
		if drive.Step(tr, 2, 2, func() (err error) { sout, err = snd.Round2(in1); return }).Class != "ok" {
			return res
		}
		h = sha256.New()
		for i := range sout.Messages {
			for c := 0; c < 2; c++ {
				for l := range sout.Messages[i][c] {
					h.Write(sout.Messages[i][c][l])
				}
			}
		}
		tr.Outputs[2] = "pads=" + vh.Hex(h.Sum(nil))
	default:
		res.SetupErr = "unknown kind " + cfg.Kind
	}
	return res
}

func scalars(xs []*k256.Scalar) string {
	p := make([]string, len(xs))
	for i, x := range xs {
		p[i] = vh.Hex(x.Bytes())
	}
	return strings.Join(p, ",")
}
