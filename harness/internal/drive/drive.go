// Package drive is what every protocol driver (harness/internal/drive/<protocol>) shares:
// recording random tapes, a message hook through which every protocol message passes as
// CBOR bytes (so that a check can observe, alter, drop or replay it), verdict
// classification of errors, and the trace of a run.
//
// A protocol driver exports  Run(cfg Config, ...) *drive.Trace  and wires the real
// round functions of /repo exactly as the package's own tests do, passing every message
// from sender to recipient through drive.Pass.
package drive

import (
	"fmt"
	"io"
	"sort"
	"strings"
	"sync"

	"github.com/bronlabs/bron-crypto/pkg/base"
	"github.com/bronlabs/bron-crypto/pkg/base/serde"
	"github.com/bronlabs/bron-crypto/pkg/mpc/sharing"

	"verif/harness/internal/vh"
)

// ---- tapes ---------------------------------------------------------------------------

// Read is one Read call served by a tape.
type Read struct {
	Off int    // offset of the first byte in the party's stream
	N   int    // number of bytes served
	Tag string // value of Tape.Mark when the read happened (e.g. "r1", "r2")
}

// Tape is a recording io.Reader over a deterministic stream. The stream of party id in a
// run with seed s is vh.NewRng(s, prop, "tape/"+label, id); two runs that differ only in
// one party's label differ only in that party's randomness.
type Tape struct {
	mu     sync.Mutex // the library reads a caller's prng from several goroutines (sigand branches)
	src    io.Reader
	Bytes  []byte // every byte served so far
	Reads  []Read
	Mark   string
	Chunk  int                              // > 0: serve at most Chunk bytes per Read call
	Tamper func(t *Tape, off int, p []byte) // see DefaultTamper
}

// DefaultChunk, when > 0, makes every tape created afterwards serve at most that many bytes per
// Read call (a legal io.Reader behaviour: short reads without error). A harness sets it around a
// run to check that the protocol code draws ALL its randomness with io.ReadFull-style loops —
// code that ignores the byte count of a short read leaves part of a "random" value constant.
var DefaultChunk int

// DefaultTamper, when non-nil, is called by every tape created afterwards on the bytes of each Read
// (after they are drawn from the stream, before they are served and recorded); it may overwrite p in
// place. A harness uses it to serve a tape that differs from a base run in exactly one Read segment.
var DefaultTamper func(t *Tape, off int, p []byte)

func NewTape(src io.Reader) *Tape {
	return &Tape{src: src, Chunk: DefaultChunk, Tamper: DefaultTamper}
}

func (t *Tape) Read(p []byte) (int, error) {
	t.mu.Lock()
	defer t.mu.Unlock()
	if t.Chunk > 0 && len(p) > t.Chunk {
		p = p[:t.Chunk]
	}
	n, err := io.ReadFull(t.src, p)
	if t.Tamper != nil {
		t.Tamper(t, len(t.Bytes), p[:n])
	}
	t.Reads = append(t.Reads, Read{Off: len(t.Bytes), N: n, Tag: t.Mark})
	t.Bytes = append(t.Bytes, p[:n]...)
	return n, err
}

// Slice returns the bytes of read number i.
func (t *Tape) Slice(i int) []byte {
	r := t.Reads[i]
	return t.Bytes[r.Off : r.Off+r.N]
}

// ReadsText renders the read log as "tag:off+n,..." (for evidence / C07 draw specifications).
func (t *Tape) ReadsText() string {
	parts := make([]string, len(t.Reads))
	for i, r := range t.Reads {
		parts[i] = fmt.Sprintf("%s:%d+%d", r.Tag, r.Off, r.N)
	}
	return strings.Join(parts, ",")
}

// ---- messages ------------------------------------------------------------------------

// Msg is one protocol message on the wire. To == 0 means broadcast.
type Msg struct {
	Proto   string
	Round   int
	From    sharing.ID
	To      sharing.ID
	Payload []byte // CBOR as sent
	Altered []byte // CBOR as delivered, nil if unchanged
	Dropped bool
}

// Hook sees every message before delivery and returns the bytes to deliver (nil = drop).
// For a broadcast it is called once per recipient with the same payload; a hook that must
// alter a broadcast uniformly (as echo broadcast enforces) keys its decision on (round, from)
// only.
type Hook interface {
	OnMessage(m *Msg, recipient sharing.ID) []byte
}

// HookFunc adapts a function to Hook.
type HookFunc func(m *Msg, recipient sharing.ID) []byte

func (f HookFunc) OnMessage(m *Msg, recipient sharing.ID) []byte { return f(m, recipient) }

// Trace is everything observable about one protocol run.
type Trace struct {
	Proto    string
	Messages []*Msg
	Tapes    map[sharing.ID]*Tape
	Verdicts map[sharing.ID]Verdict // one per party (last non-ok verdict wins), plus id 0 for an aggregator
	Outputs  map[sharing.ID]string  // canonical text of each party's output (protocol specific)
	Notes    []string
}

func NewTrace(proto string) *Trace {
	return &Trace{Proto: proto, Tapes: map[sharing.ID]*Tape{}, Verdicts: map[sharing.ID]Verdict{}, Outputs: map[sharing.ID]string{}}
}

// DecodeErr is returned by Pass when the (altered) bytes no longer decode; the recipient
// treats it as a malformed message from the sender.
type DecodeErr struct{ Err error }

func (e *DecodeErr) Error() string { return "undecodable message: " + e.Err.Error() }

// Pass sends message m of type M from `from` to `to` (recipient `rcpt`; for broadcasts
// to == 0 and rcpt is the actual recipient) through CBOR and the hook, records it in the
// trace and returns what the recipient decodes. dropped reports that the hook dropped it.
func Pass[M any](tr *Trace, hook Hook, round int, from, to, rcpt sharing.ID, m M) (out M, dropped bool, err error) {
	data, err := serde.MarshalCBOR(m)
	if err != nil {
		return out, false, fmt.Errorf("marshal: %w", err)
	}
	rec := &Msg{Proto: tr.Proto, Round: round, From: from, To: to, Payload: data}
	deliver := data
	if hook != nil {
		deliver = hook.OnMessage(rec, rcpt)
		if deliver == nil {
			rec.Dropped = true
		} else if string(deliver) != string(data) {
			rec.Altered = deliver
		}
	}
	tr.Messages = append(tr.Messages, rec)
	if rec.Dropped {
		return out, true, nil
	}
	var perr string
	perr = vh.Safely(func() { out, err = serde.UnmarshalCBOR[M](deliver) })
	if perr != "" {
		return out, false, &DecodeErr{fmt.Errorf("PANIC in decoder: %s", perr)}
	}
	if err != nil {
		return out, false, &DecodeErr{err}
	}
	return out, false, nil
}

// ---- verdicts ------------------------------------------------------------------------

// Verdict is the canonical class of what a party's step returned.
type Verdict struct {
	Class  string       // ok | reject | reject_blame | panic | timeout | missing
	Blamed []sharing.ID // sorted, for reject_blame
	Round  int
	Detail string // first line of the error text; never compared
}

func (v Verdict) String() string {
	if v.Class == "reject_blame" {
		ids := make([]string, len(v.Blamed))
		for i, b := range v.Blamed {
			ids[i] = fmt.Sprint(uint64(b))
		}
		return "reject_blame{" + strings.Join(ids, ",") + "}"
	}
	return v.Class
}

// Classify maps an error (nil = ok) to a verdict.
func Classify(round int, err error) Verdict {
	if err == nil {
		return Verdict{Class: "ok", Round: round}
	}
	d := err.Error()
	if i := strings.IndexByte(d, '\n'); i >= 0 {
		d = d[:i]
	}
	if len(d) > 300 {
		d = d[:300]
	}
	ids := base.GetMaliciousIdentities[sharing.ID](err)
	if len(ids) > 0 {
		seen := map[sharing.ID]bool{}
		var u []sharing.ID
		for _, id := range ids {
			if !seen[id] {
				seen[id] = true
				u = append(u, id)
			}
		}
		sort.Slice(u, func(i, j int) bool { return u[i] < u[j] })
		return Verdict{Class: "reject_blame", Blamed: u, Round: round, Detail: d}
	}
	return Verdict{Class: "reject", Round: round, Detail: d}
}

// Step runs one party step, converting a panic into a "panic" verdict. It records the
// verdict in the trace unless the party already has a non-ok verdict.
func Step(tr *Trace, id sharing.ID, round int, f func() error) Verdict {
	var err error
	p := vh.Safely(func() { err = f() })
	v := Classify(round, err)
	if p != "" {
		v = Verdict{Class: "panic", Round: round, Detail: p}
	}
	if old, ok := tr.Verdicts[id]; !ok || old.Class == "ok" {
		tr.Verdicts[id] = v
	}
	return v
}

// SortedIDs returns ids ascending.
func SortedIDs[T any](m map[sharing.ID]T) []sharing.ID {
	ids := make([]sharing.ID, 0, len(m))
	for id := range m {
		ids = append(ids, id)
	}
	sort.Slice(ids, func(i, j int) bool { return ids[i] < ids[j] })
	return ids
}
