// Package aor drives the real agree-on-random protocol of /repo/pkg/mpc/aor
// (Participant.Round1, Round2, Round3) round by round, exactly as the package's own
// rounds_test.go does, under the shared conventions of verif/harness/internal/drive.
//
//	res := aor.RunFull(aor.Config{Seed: s, Prop: "C04", Quorum: ids, Size: 32})
//
// Conventions
//
//   - Every party has its own recording drive.Tape over the stream
//     vh.NewRng(cfg.Seed, cfg.Prop, "tape/"+label, int(id)); label = cfg.Labels[id], default "a".
//     tape.Mark is "r0" during construction, "r1".."r3" in the rounds.  Round1 reads Size bytes
//     (the sample) and then the 32-byte commitment witness.
//   - Every party gets its own hagrid transcript with the common name cfg.TapeName (default
//     "verif-aor"); the commitment key is derived from it by NewParticipant.
//   - Wire messages carry the number of the round function that PRODUCED them: round 1:
//     Round1Broadcast, round 2: Round2Broadcast (both To == 0).  Every message is passed once per
//     recipient through drive.Pass (CBOR round trip + hook), senders ascending, recipients ascending.
//   - Every party step runs inside drive.Step; a party with a non-ok verdict stops, the others
//     continue (they find its message missing).  A dropped message is absent from the inbox; an
//     undecodable one makes the recipient reject in the receiving round.
//   - Trace.Outputs[id] of a party that completed: "sample=<hex>;tx=<hex32>" (the agreed sample
//     and a 32-byte extract of the party's transcript after the run).
//   - Deterministic, no goroutines, no `testing` import.
package aor

import (
	"fmt"
	"sort"

	ds "github.com/bronlabs/bron-crypto/pkg/base/datastructures"
	"github.com/bronlabs/bron-crypto/pkg/base/datastructures/hashmap"
	"github.com/bronlabs/bron-crypto/pkg/base/datastructures/hashset"
	raor "github.com/bronlabs/bron-crypto/pkg/mpc/aor"
	"github.com/bronlabs/bron-crypto/pkg/mpc/sharing"
	"github.com/bronlabs/bron-crypto/pkg/transcripts"
	"github.com/bronlabs/bron-crypto/pkg/transcripts/hagrid"

	"verif/harness/internal/drive"
	"verif/harness/internal/vh"
)

// Proto is Trace.Proto / Msg.Proto of this driver.
const Proto = "aor"

// Config of one run.
type Config struct {
	Seed     int64
	Prop     string
	Quorum   []sharing.ID
	Size     int                   // sample length in bytes (default 32)
	TapeName string                // name of the common transcript (default "verif-aor")
	Labels   map[sharing.ID]string // tape label per party, default "a"
	Hook     drive.Hook
}

// Result is the typed outcome.
type Result struct {
	Trace   *drive.Trace
	IDs     []sharing.ID
	Samples map[sharing.ID][]byte
	Extract map[sharing.ID][]byte // 32-byte transcript extract after the run
	R1B     map[sharing.ID]*raor.Round1Broadcast
	R2B     map[sharing.ID]*raor.Round2Broadcast
}

func freeze[M any](m map[sharing.ID]M) ds.Map[sharing.ID, M] {
	h := hashmap.NewComparable[sharing.ID, M]()
	for k, v := range m {
		h.Put(k, v)
	}
	return h.Freeze()
}

// RunFull executes the protocol.
func RunFull(cfg Config) *Result {
	tr := drive.NewTrace(Proto)
	ids := append([]sharing.ID(nil), cfg.Quorum...)
	sort.Slice(ids, func(i, j int) bool { return ids[i] < ids[j] })
	size := cfg.Size
	if size == 0 {
		size = 32
	}
	name := cfg.TapeName
	if name == "" {
		name = "verif-aor"
	}
	res := &Result{Trace: tr, IDs: ids, Samples: map[sharing.ID][]byte{}, Extract: map[sharing.ID][]byte{},
		R1B: map[sharing.ID]*raor.Round1Broadcast{}, R2B: map[sharing.ID]*raor.Round2Broadcast{}}
	quorum := hashset.NewComparable(ids...).Freeze()
	parts := map[sharing.ID]*raor.Participant{}
	tapes := map[sharing.ID]transcripts.Transcript{}
	alive := func(id sharing.ID) bool {
		v, ok := tr.Verdicts[id]
		return parts[id] != nil && (!ok || v.Class == "ok")
	}
	for _, id := range ids {
		label := "a"
		if l, ok := cfg.Labels[id]; ok && l != "" {
			label = l
		}
		tape := drive.NewTape(vh.NewRng(cfg.Seed, cfg.Prop, "tape/"+label, int(id)))
		tape.Mark = "r0"
		tr.Tapes[id] = tape
		drive.Step(tr, id, 0, func() error {
			tapes[id] = hagrid.NewTranscript(name)
			p, err := raor.NewParticipant(id, quorum, size, tapes[id], tape)
			if err != nil {
				return err
			}
			parts[id] = p
			return nil
		})
	}
	for _, id := range ids {
		if !alive(id) {
			continue
		}
		tr.Tapes[id].Mark = "r1"
		drive.Step(tr, id, 1, func() error {
			b, err := parts[id].Round1()
			if err != nil {
				return err
			}
			res.R1B[id] = b
			return nil
		})
	}
	in1 := deliver(tr, cfg.Hook, 1, ids, alive, res.R1B)
	for _, id := range ids {
		if !alive(id) {
			continue
		}
		tr.Tapes[id].Mark = "r2"
		drive.Step(tr, id, 2, func() error {
			b, err := parts[id].Round2(freeze(in1[id]))
			if err != nil {
				return err
			}
			res.R2B[id] = b
			return nil
		})
	}
	in2 := deliver(tr, cfg.Hook, 2, ids, alive, res.R2B)
	for _, id := range ids {
		if !alive(id) {
			continue
		}
		tr.Tapes[id].Mark = "r3"
		var sample []byte
		drive.Step(tr, id, 3, func() error {
			s, err := parts[id].Round3(freeze(in2[id]))
			if err != nil {
				return err
			}
			sample = s
			return nil
		})
		if sample != nil {
			res.Samples[id] = append([]byte(nil), sample...)
			vh.Safely(func() {
				if x, err := tapes[id].ExtractBytes("verif-aor-extract", 32); err == nil {
					res.Extract[id] = x
				}
			})
			tr.Outputs[id] = fmt.Sprintf("sample=%s;tx=%s", vh.Hex(res.Samples[id]), vh.Hex(res.Extract[id]))
		}
	}
	return res
}

func deliver[B any](tr *drive.Trace, hook drive.Hook, round int, ids []sharing.ID, alive func(sharing.ID) bool, out map[sharing.ID]B) map[sharing.ID]map[sharing.ID]B {
	in := map[sharing.ID]map[sharing.ID]B{}
	was := map[sharing.ID]bool{}
	for _, id := range ids {
		in[id] = map[sharing.ID]B{}
		was[id] = alive(id)
	}
	for _, from := range ids {
		if !was[from] {
			continue
		}
		m, ok := out[from]
		if !ok {
			continue
		}
		for _, to := range ids {
			if to == from || !was[to] {
				continue
			}
			got, dropped, err := drive.Pass(tr, hook, round, from, 0, to, m)
			switch {
			case err != nil:
				drive.Step(tr, to, round+1, func() error { return err })
			case !dropped:
				in[to][from] = got
			}
		}
	}
	return in
}
