// Package boldyreva drives the real Boldyreva threshold-BLS signing of /repo
// (pkg/mpc/signatures/bls/boldyreva02/signing: Cosigner.ProducePartialSignature,
// Aggregator.Aggregate) as the package's own signing_test.go / testutils do, under the
// conventions of verif/harness/internal/drive.
//
//	res := boldyreva.RunFull(cfg);  tr := boldyreva.Run(cfg);  boldyreva.Full(tr)
//
// Conventions
//
//   - cfg.KeySize "short" (public keys in G1, signatures in G2) | "long" (the converse);
//     cfg.Mode "basic" | "aug" | "pop" (rogue-key prevention of the TARGET scheme).
//   - Key material: drive/keys.Material (trusted dealer on stream vh.NewRng(Seed, Prop, "deal", 0),
//     or the real Gennaro DKG with cfg.KeySource = "gennaro") for
//     cfg.Policy over the key group (G1 resp. G2 of BLS12-381), converted with
//     boldyreva02/keygen.NewShortKeyShard / NewLongKeyShard.
//   - Signing is deterministic; the per-party tapes exist (and stay empty). Mark "new" during
//     New*Cosigner, "r1" during ProducePartialSignature.
//   - Messages: round 1: the PartialSignature of every party, passed to the aggregator as a
//     broadcast with recipient 0 (CBOR round trip as in testutils.DoThresholdSign).
//   - Aggregator 0 is New{Short,Long}KeyAggregator(...).Aggregate over what arrived.
//   - Trace.Outputs[id] = "sigma=<hex,...>;pop=<hex,...>" (the components of the partial
//     signature), Outputs[0] = "sig=<hex>;pop=<hex|->".
//   - The result also carries: the library's single-party verifier of the target scheme on the
//     aggregate (Lib), the pairing equation e(pk,H(m')) = e(g,sigma) evaluated with the library's
//     pairing on the DST and (augmented) message of the target scheme (Pairing, and PopPairing),
//     the point x·H(m') computed from the dealer's secret (Predicted, PredictedPop), each
//     holder's share components and reconstruction coefficients for the quorum (Rows, Coefs).
//   - No `testing` import; deterministic.
package boldyreva

import (
	"fmt"
	"math/big"
	"strings"
	"sync"

	"github.com/bronlabs/bron-crypto/pkg/base/algebra"
	"github.com/bronlabs/bron-crypto/pkg/base/curves"
	"github.com/bronlabs/bron-crypto/pkg/base/curves/pairable/bls12381"
	"github.com/bronlabs/bron-crypto/pkg/base/datastructures/hashmap"
	"github.com/bronlabs/bron-crypto/pkg/mpc"
	rsess "github.com/bronlabs/bron-crypto/pkg/mpc/session"
	"github.com/bronlabs/bron-crypto/pkg/mpc/sharing"
	"github.com/bronlabs/bron-crypto/pkg/mpc/signatures/bls/boldyreva02"
	"github.com/bronlabs/bron-crypto/pkg/mpc/signatures/bls/boldyreva02/keygen"
	"github.com/bronlabs/bron-crypto/pkg/mpc/signatures/bls/boldyreva02/signing"
	"github.com/bronlabs/bron-crypto/pkg/signatures/bls"

	"verif/harness/internal/drive"
	"verif/harness/internal/drive/keys"
	"verif/harness/internal/vh"
)

// Config of one run.
type Config struct {
	keys.Common
	Policy  string
	KeySize string // "short" | "long"
	Mode    string // "basic" | "aug" | "pop"
}

// Result is the typed outcome.
type Result struct {
	Trace        *drive.Trace
	Quorum       []sharing.ID
	Order        *big.Int
	Secret       *big.Int
	PK           []byte
	Rows         map[sharing.ID][]*big.Int // share components per holder of the quorum
	Coefs        map[sharing.ID][]*big.Int // reconstruction coefficients of those rows for the quorum
	Sig, Pop     []byte                    // aggregate (nil if aggregation failed)
	Lib          string                    // ok | reject | panic | -
	Pairing      string                    // ok | reject | - : e(pk, H(dst, m')) == e(g, sig)
	PopPairing   string                    // same for the proof of possession (pop mode)
	Predicted    []byte                    // x·H(dst, m')
	PredictedPop []byte                    // x·H(popdst, pk)
	SetupErr     string
}

var (
	regMu sync.Mutex
	reg   = map[*drive.Trace]*Result{}
)

func Run(cfg Config) *drive.Trace {
	res := RunFull(cfg)
	regMu.Lock()
	reg[res.Trace] = res
	regMu.Unlock()
	return res.Trace
}

func Full(tr *drive.Trace) *Result {
	regMu.Lock()
	defer regMu.Unlock()
	return reg[tr]
}

func Forget(tr *drive.Trace) {
	regMu.Lock()
	delete(reg, tr)
	regMu.Unlock()
}

func mode(s string) (bls.RogueKeyPreventionAlgorithm, error) {
	switch s {
	case "", "basic":
		return bls.Basic, nil
	case "aug":
		return bls.MessageAugmentation, nil
	case "pop":
		return bls.POP, nil
	}
	return 0, fmt.Errorf("unknown mode %q", s)
}

type g1 = *bls12381.PointG1
type f1 = *bls12381.BaseFieldElementG1
type g2 = *bls12381.PointG2
type f2 = *bls12381.BaseFieldElementG2
type gt = *bls12381.GtElement
type sc = *bls12381.Scalar

// RunFull executes the protocol.
func RunFull(cfg Config) *Result {
	family := &bls12381.FamilyTrait{}
	switch cfg.KeySize {
	case "", "short":
		return run[g1, f1, g2, f2, gt, sc](cfg, bls.ShortKey, bls12381.NewG1(), bls12381.NewG2(),
			func(b *mpc.BaseShard[g1, sc]) (*boldyreva02.Shard[g1, f1, g2, f2, gt, sc], error) {
				return keygen.NewShortKeyShard[g1, f1, g2, f2, gt, sc](b)
			},
			func(ctx *rsess.Context, sh *boldyreva02.Shard[g1, f1, g2, f2, gt, sc], alg bls.RogueKeyPreventionAlgorithm) (*signing.Cosigner[g1, f1, g2, f2, gt, sc], error) {
				return signing.NewShortKeyCosigner(ctx, family, sh, alg)
			},
			func(pm *boldyreva02.PublicMaterial[g1, f1, g2, f2, gt, sc], alg bls.RogueKeyPreventionAlgorithm) (*signing.Aggregator[g1, f1, g2, f2, gt, sc], error) {
				return signing.NewShortKeyAggregator(family, pm, alg)
			},
			func(alg bls.RogueKeyPreventionAlgorithm) (*bls.Scheme[g1, f1, g2, f2, gt, sc], error) {
				return bls.NewShortKeyScheme(family, alg)
			})
	case "long":
		return run[g2, f2, g1, f1, gt, sc](cfg, bls.LongKey, bls12381.NewG2(), bls12381.NewG1(),
			func(b *mpc.BaseShard[g2, sc]) (*boldyreva02.Shard[g2, f2, g1, f1, gt, sc], error) {
				return keygen.NewLongKeyShard[g2, f2, g1, f1, gt, sc](b)
			},
			func(ctx *rsess.Context, sh *boldyreva02.Shard[g2, f2, g1, f1, gt, sc], alg bls.RogueKeyPreventionAlgorithm) (*signing.Cosigner[g2, f2, g1, f1, gt, sc], error) {
				return signing.NewLongKeyCosigner(ctx, family, sh, alg)
			},
			func(pm *boldyreva02.PublicMaterial[g2, f2, g1, f1, gt, sc], alg bls.RogueKeyPreventionAlgorithm) (*signing.Aggregator[g2, f2, g1, f1, gt, sc], error) {
				return signing.NewLongKeyAggregator(family, pm, alg)
			},
			func(alg bls.RogueKeyPreventionAlgorithm) (*bls.Scheme[g2, f2, g1, f1, gt, sc], error) {
				return bls.NewLongKeyScheme(family, alg)
			})
	}
	e := keys.NewEngine("boldyreva", cfg.Common)
	return &Result{Trace: e.Tr, SetupErr: "unknown key size " + cfg.KeySize}
}

func run[
	PK curves.PairingFriendlyPoint[PK, PKFE, SG, SGFE, E, S], PKFE algebra.FieldElement[PKFE],
	SG curves.PairingFriendlyPoint[SG, SGFE, PK, PKFE, E, S], SGFE algebra.FieldElement[SGFE],
	E algebra.MultiplicativeGroupElement[E], S algebra.PrimeFieldElement[S],
](cfg Config, variant bls.Variant,
	keyGroup curves.PairingFriendlyCurve[PK, PKFE, SG, SGFE, E, S],
	sigGroup curves.PairingFriendlyCurve[SG, SGFE, PK, PKFE, E, S],
	newShard func(*mpc.BaseShard[PK, S]) (*boldyreva02.Shard[PK, PKFE, SG, SGFE, E, S], error),
	newCosigner func(*rsess.Context, *boldyreva02.Shard[PK, PKFE, SG, SGFE, E, S], bls.RogueKeyPreventionAlgorithm) (*signing.Cosigner[PK, PKFE, SG, SGFE, E, S], error),
	newAggregator func(*boldyreva02.PublicMaterial[PK, PKFE, SG, SGFE, E, S], bls.RogueKeyPreventionAlgorithm) (*signing.Aggregator[PK, PKFE, SG, SGFE, E, S], error),
	newScheme func(bls.RogueKeyPreventionAlgorithm) (*bls.Scheme[PK, PKFE, SG, SGFE, E, S], error),
) *Result {
	e := keys.NewEngine("boldyreva-"+cfg.KeySize+"-"+cfg.Mode, cfg.Common)
	res := &Result{Trace: e.Tr, Quorum: e.IDs, Rows: map[sharing.ID][]*big.Int{}, Coefs: map[sharing.ID][]*big.Int{}, Lib: "-", Pairing: "-", PopPairing: "-"}
	fail := func(format string, a ...any) *Result {
		res.SetupErr = fmt.Sprintf(format, a...)
		e.Tr.Notes = append(e.Tr.Notes, "setup: "+res.SetupErr)
		return res
	}
	alg, err := mode(cfg.Mode)
	if err != nil {
		return fail("%v", err)
	}
	res.Order = keyGroup.Order().Big()
	pol, err := keys.ParsePolicy(cfg.Policy)
	if err != nil {
		return fail("policy: %v", err)
	}
	var dealt *keys.Dealt[PK, S]
	if p := vh.Safely(func() { dealt, err = keys.Material[PK, S](cfg.Common, keyGroup, pol) }); p != "" {
		return fail("dealer panicked: %s", p)
	}
	if err != nil {
		return fail("dealer: %v", err)
	}
	res.Secret = dealt.Secret.Cardinal().Big()
	res.PK = dealt.PK.Bytes()
	shards := map[sharing.ID]*boldyreva02.Shard[PK, PKFE, SG, SGFE, E, S]{}
	for _, id := range e.IDs {
		bs, ok := dealt.Shards[id]
		if !ok {
			return fail("quorum member %d holds no shard", uint64(id))
		}
		sh, err := newShard(bs)
		if err != nil {
			return fail("keygen shard %d: %v", uint64(id), err)
		}
		shards[id] = sh
		for _, v := range bs.Share().Value() {
			res.Rows[id] = append(res.Rows[id], v.Cardinal().Big())
		}
		vh.Safely(func() {
			cf, err := bs.MSP().ReconstructionCoefficients(id, e.IDs...)
			if err == nil {
				for _, c := range cf {
					res.Coefs[id] = append(res.Coefs[id], c.Cardinal().Big())
				}
			}
		})
	}
	var ctxs map[sharing.ID]*rsess.Context
	if p := vh.Safely(func() { ctxs, err = keys.Contexts(cfg.Common) }); p != "" {
		return fail("session contexts panicked: %s", p)
	}
	if err != nil {
		return fail("session contexts: %v", err)
	}

	cs := map[sharing.ID]*signing.Cosigner[PK, PKFE, SG, SGFE, E, S]{}
	e.Construct(func(id sharing.ID) error {
		c, err := newCosigner(ctxs[id], shards[id], alg)
		if err != nil {
			return err
		}
		cs[id] = c
		return nil
	})
	psigs := map[sharing.ID]*boldyreva02.PartialSignature[SG, SGFE, PK, PKFE, E, S]{}
	e.Each(1, func(id sharing.ID) error {
		ps, err := cs[id].ProducePartialSignature(cfg.Message)
		if err != nil {
			return err
		}
		psigs[id] = ps
		return nil
	})
	hexes := func(l []*bls.Signature[SG, SGFE, PK, PKFE, E, S]) string {
		if len(l) == 0 {
			return "-"
		}
		p := make([]string, len(l))
		for i, s := range l {
			p[i] = vh.Hex(s.Value().Bytes())
		}
		return strings.Join(p, ",")
	}
	atAgg := hashmap.NewComparable[sharing.ID, *boldyreva02.PartialSignature[SG, SGFE, PK, PKFE, E, S]]()
	for _, id := range e.IDs {
		ps, ok := psigs[id]
		if !ok || ps == nil {
			continue
		}
		e.Tr.Outputs[id] = "sigma=" + hexes(ps.SigmaI) + ";pop=" + hexes(ps.SigmaPopI)
		got, dropped, err := drive.Pass(e.Tr, e.Hook, 1, id, 0, 0, ps)
		if err != nil || dropped {
			continue
		}
		atAgg.Put(id, got)
	}
	var anyShard *boldyreva02.Shard[PK, PKFE, SG, SGFE, E, S]
	for _, id := range e.IDs {
		anyShard = shards[id]
		break
	}
	pkm := anyShard.PublicKeyMaterial()
	var sig *bls.Signature[SG, SGFE, PK, PKFE, E, S]
	drive.Step(e.Tr, 0, 2, func() error {
		agg, err := newAggregator(pkm, alg)
		if err != nil {
			return err
		}
		sig, err = agg.Aggregate(atAgg.Freeze(), cfg.Message)
		return err
	})

	// predictions from the dealer's secret, and the independent pairing check
	scheme, err := newScheme(alg)
	if err != nil {
		return fail("scheme: %v", err)
	}
	dst, err := scheme.CipherSuite().GetDst(alg, variant)
	if err != nil {
		return fail("dst: %v", err)
	}
	popDst := scheme.CipherSuite().GetPopDst(variant)
	internal := cfg.Message
	if alg == bls.MessageAugmentation {
		internal = append(append([]byte(nil), dealt.PK.Bytes()...), cfg.Message...)
	}
	pairOK := func(dst string, m []byte, s SG) string {
		out := "reject"
		p := vh.Safely(func() {
			hm, err := sigGroup.HashWithDst(dst, m)
			if err != nil {
				return
			}
			l, err := hm.Pair(dealt.PK)
			if err != nil {
				return
			}
			r, err := s.Pair(keyGroup.Generator())
			if err != nil {
				return
			}
			if l.Equal(r) {
				out = "ok"
			}
		})
		if p != "" {
			return "panic"
		}
		return out
	}
	vh.Safely(func() {
		if len(internal) > 0 {
			if hm, err := sigGroup.HashWithDst(dst, internal); err == nil {
				res.Predicted = hm.ScalarMul(dealt.Secret).Bytes()
			}
		}
		if hp, err := sigGroup.HashWithDst(popDst, dealt.PK.Bytes()); err == nil {
			res.PredictedPop = hp.ScalarMul(dealt.Secret).Bytes()
		}
	})
	if sig != nil {
		res.Sig = sig.Value().Bytes()
		popText := "-"
		if pop := sig.Pop(); pop != nil {
			res.Pop = pop.Value().Bytes()
			popText = vh.Hex(res.Pop)
			res.PopPairing = pairOK(popDst, dealt.PK.Bytes(), pop.Value())
		}
		e.Tr.Outputs[0] = "sig=" + vh.Hex(res.Sig) + ";pop=" + popText
		res.Pairing = pairOK(dst, internal, sig.Value())
		res.Lib = "reject"
		p := vh.Safely(func() {
			vf, err := scheme.Verifier()
			if err != nil {
				return
			}
			if vf.Verify(sig, anyShard.PublicKey(), cfg.Message) == nil {
				res.Lib = "ok"
			}
		})
		if p != "" {
			res.Lib = "panic"
		}
	}
	return res
}
