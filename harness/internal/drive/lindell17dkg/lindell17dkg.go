// Package lindell17dkg drives the real Lindell17 auxiliary-information DKG of /repo
// (pkg/mpc/signatures/ecdsa/lindell17/keygen/dkg: Participant.Round1..Round8) round by round,
// exactly as the package's own testutils.RunLindell17DKG does, under the conventions of
// verif/harness/internal/drive.
//
//	res := lindell17dkg.RunFull(lindell17dkg.Config[P, B, S]{Seed: s, Prop: "C04", Curve: k256.NewCurve(), Shards: base, Ctxs: ctxs})
//
// Conventions
//
//   - The parties are the shareholders of the base shards' MSP (all of them: the protocol
//     requires the complete shareholder set).  cfg.Shards are trusted-dealer base shards, cfg.Ctxs
//     one fresh session context per party (consumed).
//   - COST: the protocol samples its Paillier key INSIDE Round3 (paillier.SampleSecretKey on the
//     party's prng, via crypto/rsa.GenerateKey) and refuses moduli below base.IFCKeyLength (3072
//     bits) outside `go test`; pre-generated primes cannot be injected.  One run therefore costs
//     one 3072-bit key generation per party plus the LP / LPDL proofs: never use it in a quick tier.
//     crypto/rsa.GenerateKey does not read the prng deterministically, so the Paillier keys (and
//     everything after Round3) differ between two runs with the same seed; rounds 1 and 2 are
//     deterministic functions of the tapes.
//   - Per-party recording tapes over vh.NewRng(cfg.Seed, cfg.Prop, "tape/"+label, int(id)), label =
//     cfg.Labels[id] (default "a"); read through a mutex (the proof batches read concurrently).
//     tape.Mark is "r0" during NewParticipant and "r1".."r8" in the rounds.
//   - Messages carry the number of the round function that PRODUCED them: rounds 1-3: broadcasts
//     (To == 0), rounds 4-7: unicasts between qualified pairs.  Round8 produces the
//     *lindell17.Shard.  Every message goes once per recipient through drive.Pass, senders
//     ascending, recipients ascending.
//   - Every party step runs inside drive.Step; a party with a non-ok verdict stops.  A dropped
//     message is absent from the inbox; an undecodable one makes the recipient reject in the
//     receiving round.
//   - Trace.Outputs[id] of a party that completed: "pk=<hex>;peers=<id>:<hex of N>,..".
//   - No `testing` import.
package lindell17dkg

import (
	"fmt"
	"io"
	"sort"
	"strings"
	"sync"

	"github.com/bronlabs/bron-crypto/pkg/base"
	"github.com/bronlabs/bron-crypto/pkg/base/algebra"
	"github.com/bronlabs/bron-crypto/pkg/base/curves"
	ds "github.com/bronlabs/bron-crypto/pkg/base/datastructures"
	"github.com/bronlabs/bron-crypto/pkg/base/datastructures/hashmap"
	"github.com/bronlabs/bron-crypto/pkg/mpc"
	rsess "github.com/bronlabs/bron-crypto/pkg/mpc/session"
	"github.com/bronlabs/bron-crypto/pkg/mpc/sharing"
	"github.com/bronlabs/bron-crypto/pkg/mpc/signatures/ecdsa/lindell17"
	"github.com/bronlabs/bron-crypto/pkg/mpc/signatures/ecdsa/lindell17/keygen/dkg"
	"github.com/bronlabs/bron-crypto/pkg/proofs/sigma/compiler"
	"github.com/bronlabs/bron-crypto/pkg/proofs/sigma/compiler/fiatshamir"
	"github.com/bronlabs/bron-crypto/pkg/signatures/ecdsa"

	"verif/harness/internal/drive"
	"verif/harness/internal/vh"
)

// Proto is Trace.Proto / Msg.Proto of this driver.
const Proto = "lindell17dkg"

// Config of one run.
type Config[P curves.Point[P, B, S], B algebra.PrimeFieldElement[B], S algebra.PrimeFieldElement[S]] struct {
	Seed     int64
	Prop     string
	Labels   map[sharing.ID]string
	Hook     drive.Hook
	Curve    ecdsa.Curve[P, B, S]
	Shards   map[sharing.ID]*mpc.BaseShard[P, S]
	Ctxs     map[sharing.ID]*rsess.Context
	KeyLen   int           // Paillier modulus bits, default base.IFCKeyLength
	Compiler compiler.Name // default fiatshamir.Name
}

// Result is the typed outcome.
type Result[P curves.Point[P, B, S], B algebra.PrimeFieldElement[B], S algebra.PrimeFieldElement[S]] struct {
	Trace  *drive.Trace
	IDs    []sharing.ID
	Shards map[sharing.ID]*lindell17.Shard[P, B, S]
}

type lockedReader struct {
	mu sync.Mutex
	r  io.Reader
}

func (l *lockedReader) Read(p []byte) (int, error) {
	l.mu.Lock()
	defer l.mu.Unlock()
	return l.r.Read(p)
}

func freeze[M any](m map[sharing.ID]M) ds.Map[sharing.ID, M] {
	h := hashmap.NewComparable[sharing.ID, M]()
	for k, v := range m {
		h.Put(k, v)
	}
	return h.Freeze()
}

func thaw[M any](m ds.Map[sharing.ID, M]) map[sharing.ID]M {
	out := map[sharing.ID]M{}
	if m == nil {
		return out
	}
	for k, v := range m.Iter() {
		out[k] = v
	}
	return out
}

type part[P curves.Point[P, B, S], B algebra.PrimeFieldElement[B], S algebra.PrimeFieldElement[S]] = dkg.Participant[P, B, S]

// RunFull executes the protocol.
func RunFull[P curves.Point[P, B, S], B algebra.PrimeFieldElement[B], S algebra.PrimeFieldElement[S]](cfg Config[P, B, S]) *Result[P, B, S] {
	tr := drive.NewTrace(Proto)
	var ids []sharing.ID
	for id := range cfg.Shards {
		ids = append(ids, id)
	}
	sort.Slice(ids, func(i, j int) bool { return ids[i] < ids[j] })
	res := &Result[P, B, S]{Trace: tr, IDs: ids, Shards: map[sharing.ID]*lindell17.Shard[P, B, S]{}}
	keyLen := cfg.KeyLen
	if keyLen == 0 {
		keyLen = base.IFCKeyLength
	}
	nic := cfg.Compiler
	if nic == "" {
		nic = fiatshamir.Name
	}
	parts := map[sharing.ID]*part[P, B, S]{}
	alive := func(id sharing.ID) bool {
		v, ok := tr.Verdicts[id]
		return parts[id] != nil && (!ok || v.Class == "ok")
	}
	for _, id := range ids {
		label := "a"
		if l, ok := cfg.Labels[id]; ok && l != "" {
			label = l
		}
		tape := drive.NewTape(vh.NewRng(cfg.Seed, cfg.Prop, "tape/"+label, int(id)))
		tape.Mark = "r0"
		tr.Tapes[id] = tape
		drive.Step(tr, id, 0, func() error {
			if cfg.Ctxs[id] == nil {
				return fmt.Errorf("no session context for party %d", uint64(id))
			}
			p, err := dkg.NewParticipant(cfg.Ctxs[id], cfg.Shards[id], keyLen, cfg.Curve, &lockedReader{r: tape}, nic)
			if err != nil {
				return err
			}
			parts[id] = p
			return nil
		})
	}
	each := func(round int, f func(id sharing.ID) error) {
		for _, id := range ids {
			if !alive(id) {
				continue
			}
			tr.Tapes[id].Mark = fmt.Sprintf("r%d", round)
			drive.Step(tr, id, round, func() error { return f(id) })
		}
	}

	b1 := map[sharing.ID]*dkg.Round1Broadcast[P, B, S]{}
	each(1, func(id sharing.ID) error {
		m, err := parts[id].Round1()
		b1[id] = m
		return err
	})
	i1 := deliverB(tr, cfg.Hook, 1, ids, alive, b1)
	b2 := map[sharing.ID]*dkg.Round2Broadcast[P, B, S]{}
	each(2, func(id sharing.ID) error {
		m, err := parts[id].Round2(freeze(i1[id]))
		b2[id] = m
		return err
	})
	i2 := deliverB(tr, cfg.Hook, 2, ids, alive, b2)
	b3 := map[sharing.ID]*dkg.Round3Broadcast[P, B, S]{}
	each(3, func(id sharing.ID) error {
		m, err := parts[id].Round3(freeze(i2[id]))
		b3[id] = m
		return err
	})
	i3 := deliverB(tr, cfg.Hook, 3, ids, alive, b3)
	u4 := map[sharing.ID]map[sharing.ID]*dkg.Round4P2P[P, B, S]{}
	each(4, func(id sharing.ID) error {
		m, err := parts[id].Round4(freeze(i3[id]))
		u4[id] = thaw[*dkg.Round4P2P[P, B, S]](m)
		return err
	})
	i4 := deliverU(tr, cfg.Hook, 4, ids, alive, u4)
	u5 := map[sharing.ID]map[sharing.ID]*dkg.Round5P2P[P, B, S]{}
	each(5, func(id sharing.ID) error {
		m, err := parts[id].Round5(freeze(i4[id]))
		u5[id] = thaw[*dkg.Round5P2P[P, B, S]](m)
		return err
	})
	i5 := deliverU(tr, cfg.Hook, 5, ids, alive, u5)
	u6 := map[sharing.ID]map[sharing.ID]*dkg.Round6P2P[P, B, S]{}
	each(6, func(id sharing.ID) error {
		m, err := parts[id].Round6(freeze(i5[id]))
		u6[id] = thaw[*dkg.Round6P2P[P, B, S]](m)
		return err
	})
	i6 := deliverU(tr, cfg.Hook, 6, ids, alive, u6)
	u7 := map[sharing.ID]map[sharing.ID]*dkg.Round7P2P[P, B, S]{}
	each(7, func(id sharing.ID) error {
		m, err := parts[id].Round7(freeze(i6[id]))
		u7[id] = thaw[*dkg.Round7P2P[P, B, S]](m)
		return err
	})
	i7 := deliverU(tr, cfg.Hook, 7, ids, alive, u7)
	each(8, func(id sharing.ID) error {
		sh, err := parts[id].Round8(freeze(i7[id]))
		if err != nil {
			return err
		}
		res.Shards[id] = sh
		return nil
	})
	for _, id := range ids {
		sh := res.Shards[id]
		if sh == nil {
			continue
		}
		vh.Safely(func() {
			var peers []string
			pks := thaw(sh.PaillierPublicKeys())
			for _, p := range drive.SortedIDs(pks) {
				peers = append(peers, fmt.Sprintf("%d:%s", uint64(p), vh.Hex(pks[p].Group().N().Bytes())))
			}
			tr.Outputs[id] = "pk=" + vh.Hex(sh.PublicKeyValue().Bytes()) + ";peers=" + strings.Join(peers, ",")
		})
	}
	return res
}

func deliverB[M any](tr *drive.Trace, hook drive.Hook, round int, ids []sharing.ID, alive func(sharing.ID) bool, out map[sharing.ID]M) map[sharing.ID]map[sharing.ID]M {
	in := map[sharing.ID]map[sharing.ID]M{}
	was := map[sharing.ID]bool{}
	for _, id := range ids {
		in[id] = map[sharing.ID]M{}
		was[id] = alive(id)
	}
	for _, from := range ids {
		m, ok := out[from]
		if !was[from] || !ok {
			continue
		}
		for _, to := range ids {
			if to == from || !was[to] {
				continue
			}
			got, dropped, err := drive.Pass(tr, hook, round, from, 0, to, m)
			switch {
			case err != nil:
				drive.Step(tr, to, round+1, func() error { return err })
			case !dropped:
				in[to][from] = got
			}
		}
	}
	return in
}

func deliverU[M any](tr *drive.Trace, hook drive.Hook, round int, ids []sharing.ID, alive func(sharing.ID) bool, out map[sharing.ID]map[sharing.ID]M) map[sharing.ID]map[sharing.ID]M {
	in := map[sharing.ID]map[sharing.ID]M{}
	was := map[sharing.ID]bool{}
	for _, id := range ids {
		in[id] = map[sharing.ID]M{}
		was[id] = alive(id)
	}
	for _, from := range ids {
		if !was[from] {
			continue
		}
		for _, to := range ids {
			m, ok := out[from][to]
			if to == from || !was[to] || !ok {
				continue
			}
			got, dropped, err := drive.Pass(tr, hook, round, from, to, to, m)
			switch {
			case err != nil:
				drive.Step(tr, to, round+1, func() error { return err })
			case !dropped:
				in[to][from] = got
			}
		}
	}
	return in
}
