package redistribute

import (
	"fmt"
	"sort"
	"strconv"
	"strings"

	ds "github.com/bronlabs/bron-crypto/pkg/base/datastructures"
	"github.com/bronlabs/bron-crypto/pkg/base/datastructures/hashset"
	"github.com/bronlabs/bron-crypto/pkg/mpc/sharing"
	"github.com/bronlabs/bron-crypto/pkg/mpc/sharing/accessstructures"
	"github.com/bronlabs/bron-crypto/pkg/mpc/sharing/accessstructures/boolexpr"
	"github.com/bronlabs/bron-crypto/pkg/mpc/sharing/accessstructures/cnf"
	"github.com/bronlabs/bron-crypto/pkg/mpc/sharing/accessstructures/hierarchical"
	"github.com/bronlabs/bron-crypto/pkg/mpc/sharing/accessstructures/threshold"
	"github.com/bronlabs/bron-crypto/pkg/mpc/sharing/accessstructures/unanimity"
)

// Policy is an access structure as data, with a canonical replayable text:
//
//	T:<t>:<ids>            threshold t of ids
//	U:<ids>                unanimity
//	N:<ids>|<ids>|...      CNF given by its maximal unqualified sets
//	H:<t>:<ids>|<t>:<ids>  hierarchical conjunctive threshold, levels in order
//	G:g<t>[child,...]      threshold-gate tree, child = id or g<t>[...]
//
// ids are decimal, comma separated.
type Policy struct {
	Fam    byte // 'T','U','N','H','G'
	T      int
	IDs    []uint64
	Sets   [][]uint64
	Levels []Level
	Root   *Tree
}

type Level struct {
	T   int
	IDs []uint64
}

type Tree struct {
	Leaf bool
	ID   uint64
	T    int
	Cs   []*Tree
}

func idsText(ids []uint64) string {
	if len(ids) == 0 {
		return "-"
	}
	p := make([]string, len(ids))
	for i, x := range ids {
		p[i] = strconv.FormatUint(x, 10)
	}
	return strings.Join(p, ",")
}

func parseIDs(s string) []uint64 {
	if s == "-" || s == "" {
		return nil
	}
	var out []uint64
	for _, f := range strings.Split(s, ",") {
		x, err := strconv.ParseUint(f, 10, 64)
		if err != nil {
			panic("bad id " + f)
		}
		out = append(out, x)
	}
	return out
}

func (t *Tree) Text() string {
	if t.Leaf {
		return strconv.FormatUint(t.ID, 10)
	}
	p := make([]string, len(t.Cs))
	for i, c := range t.Cs {
		p[i] = c.Text()
	}
	return fmt.Sprintf("g%d[%s]", t.T, strings.Join(p, ","))
}

func parseTree(s string) *Tree {
	pos := 0
	var node func() *Tree
	number := func() string {
		st := pos
		for pos < len(s) && s[pos] >= '0' && s[pos] <= '9' {
			pos++
		}
		return s[st:pos]
	}
	node = func() *Tree {
		if pos < len(s) && s[pos] == 'g' {
			pos++
			t, _ := strconv.Atoi(number())
			pos++ // [
			n := &Tree{T: t}
			if s[pos] == ']' {
				pos++
				return n
			}
			for {
				n.Cs = append(n.Cs, node())
				if s[pos] == ',' {
					pos++
					continue
				}
				pos++ // ]
				return n
			}
		}
		x, _ := strconv.ParseUint(number(), 10, 64)
		return &Tree{Leaf: true, ID: x}
	}
	return node()
}

func (p Policy) Text() string {
	switch p.Fam {
	case 'T':
		return fmt.Sprintf("T:%d:%s", p.T, idsText(p.IDs))
	case 'U':
		return "U:" + idsText(p.IDs)
	case 'N':
		parts := make([]string, len(p.Sets))
		for i, s := range p.Sets {
			parts[i] = idsText(s)
		}
		return "N:" + strings.Join(parts, "|")
	case 'H':
		parts := make([]string, len(p.Levels))
		for i, l := range p.Levels {
			parts[i] = fmt.Sprintf("%d:%s", l.T, idsText(l.IDs))
		}
		return "H:" + strings.Join(parts, "|")
	default:
		return "G:" + p.Root.Text()
	}
}

// ParsePolicy parses the text produced by Policy.Text.
func ParsePolicy(s string) Policy {
	rest := s[2:]
	switch s[0] {
	case 'T':
		f := strings.SplitN(rest, ":", 2)
		t, _ := strconv.Atoi(f[0])
		return Policy{Fam: 'T', T: t, IDs: parseIDs(f[1])}
	case 'U':
		return Policy{Fam: 'U', IDs: parseIDs(rest)}
	case 'N':
		p := Policy{Fam: 'N'}
		for _, x := range strings.Split(rest, "|") {
			p.Sets = append(p.Sets, parseIDs(x))
		}
		return p
	case 'H':
		p := Policy{Fam: 'H'}
		for _, x := range strings.Split(rest, "|") {
			f := strings.SplitN(x, ":", 2)
			t, _ := strconv.Atoi(f[0])
			p.Levels = append(p.Levels, Level{t, parseIDs(f[1])})
		}
		return p
	default:
		return Policy{Fam: 'G', Root: parseTree(rest)}
	}
}

func (t *Tree) leaves(out *[]uint64) {
	if t.Leaf {
		*out = append(*out, t.ID)
		return
	}
	for _, c := range t.Cs {
		c.leaves(out)
	}
}

// Holders returns the shareholder universe of the policy, ascending.
func (p Policy) Holders() []uint64 {
	var all []uint64
	switch p.Fam {
	case 'T', 'U':
		all = append(all, p.IDs...)
	case 'N':
		for _, s := range p.Sets {
			all = append(all, s...)
		}
	case 'H':
		for _, l := range p.Levels {
			all = append(all, l.IDs...)
		}
	default:
		p.Root.leaves(&all)
	}
	m := map[uint64]bool{}
	var out []uint64
	for _, x := range all {
		if !m[x] {
			m[x] = true
			out = append(out, x)
		}
	}
	sort.Slice(out, func(i, j int) bool { return out[i] < out[j] })
	return out
}

// IDSet builds the library's immutable set.
func IDSet(ids []uint64) ds.Set[sharing.ID] {
	l := make([]sharing.ID, len(ids))
	for i, x := range ids {
		l[i] = sharing.ID(x)
	}
	return hashset.NewComparable(l...).Freeze()
}

func (t *Tree) node() *boolexpr.Node {
	if t.Leaf {
		return boolexpr.ID(sharing.ID(t.ID))
	}
	cs := make([]*boolexpr.Node, len(t.Cs))
	for i, c := range t.Cs {
		cs[i] = c.node()
	}
	return boolexpr.Threshold(t.T, cs...)
}

// Build calls the library's constructor for the policy.
func (p Policy) Build() (accessstructures.Monotone, error) {
	switch p.Fam {
	case 'T':
		return threshold.NewThresholdAccessStructure(uint(p.T), IDSet(p.IDs))
	case 'U':
		return unanimity.NewUnanimityAccessStructure(IDSet(p.IDs))
	case 'N':
		sets := make([]ds.Set[sharing.ID], len(p.Sets))
		for i, s := range p.Sets {
			sets[i] = IDSet(s)
		}
		return cnf.NewCNFAccessStructure(sets...)
	case 'H':
		ls := make([]*hierarchical.ThresholdLevel, len(p.Levels))
		for i, l := range p.Levels {
			ids := make([]sharing.ID, len(l.IDs))
			for j, x := range l.IDs {
				ids[j] = sharing.ID(x)
			}
			ls[i] = hierarchical.WithLevel(l.T, ids...)
		}
		return hierarchical.NewHierarchicalConjunctiveThresholdAccessStructure(ls...)
	case 'G':
		return boolexpr.NewThresholdGateAccessStructure(p.Root.node())
	}
	return nil, fmt.Errorf("unknown policy family %q", p.Fam)
}
