// Package redistribute drives the real share-redistribution protocol of
// /repo/pkg/mpc/redistribute (Participant.Round1, Round2, Round3) round by round, exactly
// as the package's own refresh_test.go / recover_test.go / redistribute_test.go do, under
// the shared conventions of verif/harness/internal/drive.  Refresh, recovery of a lost
// share and redistribution to another access structure / holder set are the same three
// rounds with different configurations:
//
//	refresh        PrevQuorum = a qualified set of the current holders (usually all), Next = current structure
//	recover id     PrevQuorum = a qualified set not containing id,                    Next = current structure
//	redistribute   PrevQuorum = a qualified set of the current holders,               Next = any structure / holders
//
//	res := redistribute.RunFull(redistribute.Config[*k256.Point, *k256.Scalar]{Seed: s, Prop: "C06",
//	          Group: k256.NewCurve(), PrevShards: shards, PrevQuorum: q, Next: ac, Anchor: 0})
//	tr  := redistribute.Run(cfg)                               // same, returns only the trace
//	new := redistribute.Shards[*k256.Point, *k256.Scalar](tr)   // new shards of the next holders that completed
//
// Conventions
//
//   - The session quorum is PrevQuorum ∪ Next.Shareholders().  Contexts come from
//     cfg.Contexts (cloned before use) or, when nil, from the real session setup driven by
//     verif/harness/internal/drive/session with tape labels label+".s".
//   - PrevShards[id] is handed to NewParticipant for EVERY party that has an entry.  The members
//     of PrevQuorum need theirs; a continuing holder outside the driving quorum may pass the shard
//     it holds or nothing (nil) — both are legal uses of the constructor.
//   - Every party has its own recording drive.Tape over the stream
//     vh.NewRng(cfg.Seed, cfg.Prop, "tape/"+label, int(id)); label = cfg.Labels[id],
//     default "a".  Two runs that differ only in one party's label differ only in that
//     party's randomness.  tape.Mark is "r0" during construction and "r1","r2","r3" in the
//     rounds.  A previous holder reads, for a 256-bit scalar field, Dzero × 48 bytes in
//     Round1 (HJKY dealing of zero under the unanimity structure of PrevQuorum; first
//     entry overwritten by 0) and Dnext × 48 bytes in Round2 (dealing of its additive
//     contribution under Next; first entry overwritten by the contribution).  Parties that
//     are only next holders read nothing.
//   - Wire messages carry the number of the round function that PRODUCED them:
//     round 1: Round1Broadcast (To == 0) from every party (empty from parties that are not
//     previous holders) and Round1P2P between previous holders;
//     round 2: Round2Broadcast (To == 0) from every party and Round2P2P from previous
//     holders to next holders.
//     Every message is passed once per recipient through drive.Pass (CBOR round trip +
//     hook); senders ascending, recipients ascending, a sender's broadcast before its
//     unicast to the same recipient.
//   - Every party step runs inside drive.Step.  A party with a non-ok verdict stops; the
//     others continue.  A dropped message is absent from the inbox; an undecodable one makes
//     the recipient reject in the receiving round.
//   - Trace.Outputs[id] of a next holder that completed:
//     "pk=<hex point>;vv=<hex point>,...;pub=<id>:<hex point>/...|..." — public key, verification
//     vector, every holder's public (lifted) share.  Parties that are not next holders have
//     verdict ok and no output.
//   - Deterministic, no goroutines, no `testing` import.
package redistribute

import (
	"fmt"
	"sort"
	"sync"

	"github.com/bronlabs/bron-crypto/pkg/base/algebra"
	"github.com/bronlabs/bron-crypto/pkg/base/datastructures/hashset"
	"github.com/bronlabs/bron-crypto/pkg/mpc"
	rredist "github.com/bronlabs/bron-crypto/pkg/mpc/redistribute"
	rsess "github.com/bronlabs/bron-crypto/pkg/mpc/session"
	"github.com/bronlabs/bron-crypto/pkg/mpc/sharing"
	"github.com/bronlabs/bron-crypto/pkg/mpc/sharing/accessstructures"

	"verif/harness/internal/drive"
	dhjky "verif/harness/internal/drive/hjky"
	"verif/harness/internal/vh"
)

// Proto is Trace.Proto / Msg.Proto of this driver.
const Proto = "redistribute"

// Config of one run.
type Config[G algebra.PrimeGroupElement[G, S], S algebra.PrimeFieldElement[S]] struct {
	Seed       int64
	Prop       string
	Labels     map[sharing.ID]string // tape label per party, default "a"
	Hook       drive.Hook            // nil = honest delivery
	Group      algebra.PrimeGroup[G, S]
	PrevShards map[sharing.ID]*mpc.BaseShard[G, S] // what each party passes to NewParticipant as its previous shard: required for PrevQuorum, optional (shard or absent = nil) for the others
	PrevQuorum []sharing.ID                        // the qualified set of previous holders driving the step
	Next       accessstructures.Monotone           // next access structure (its shareholders are the next holders)
	Anchor     sharing.ID                          // WithTrustedAnchorID for every party; 0 = none
	Contexts   map[sharing.ID]*rsess.Context       // optional (cloned); nil = run the real session setup
}

// Result is everything a check may want from one run (typed).
type Result[G algebra.PrimeGroupElement[G, S], S algebra.PrimeFieldElement[S]] struct {
	Trace   *drive.Trace
	Session *drive.Trace // trace of the session setup, nil when contexts were supplied
	IDs     []sharing.ID // session quorum, ascending
	Prev    []sharing.ID // PrevQuorum ascending
	NextIDs []sharing.ID // next holders ascending
	Shards  map[sharing.ID]*mpc.BaseShard[G, S]
	// messages AS SENT (before the hook)
	R1B map[sharing.ID]*rredist.Round1Broadcast[G, S]
	R1U map[sharing.ID]map[sharing.ID]*rredist.Round1P2P[G, S]
	R2B map[sharing.ID]*rredist.Round2Broadcast[G, S]
	R2U map[sharing.ID]map[sharing.ID]*rredist.Round2P2P[G, S]
}

var (
	regMu sync.Mutex
	reg   = map[*drive.Trace]any{}
)

// Run executes the protocol and returns the trace; Shards(trace) gives the new shards.
func Run[G algebra.PrimeGroupElement[G, S], S algebra.PrimeFieldElement[S]](cfg Config[G, S]) *drive.Trace {
	res := RunFull(cfg)
	regMu.Lock()
	reg[res.Trace] = res
	regMu.Unlock()
	return res.Trace
}

// Full returns the typed result belonging to a trace returned by Run (nil otherwise).
func Full[G algebra.PrimeGroupElement[G, S], S algebra.PrimeFieldElement[S]](tr *drive.Trace) *Result[G, S] {
	regMu.Lock()
	defer regMu.Unlock()
	r, _ := reg[tr].(*Result[G, S])
	return r
}

// Shards returns the new shards of the next holders that completed the run.
func Shards[G algebra.PrimeGroupElement[G, S], S algebra.PrimeFieldElement[S]](tr *drive.Trace) map[sharing.ID]*mpc.BaseShard[G, S] {
	if r := Full[G, S](tr); r != nil {
		return r.Shards
	}
	return nil
}

// Forget releases what Run remembered about tr.
func Forget(tr *drive.Trace) {
	regMu.Lock()
	delete(reg, tr)
	regMu.Unlock()
}

// OutputText is the canonical public output text of a shard (see package comment).
func OutputText[G algebra.PrimeGroupElement[G, S], S algebra.PrimeFieldElement[S]](sh *mpc.BaseShard[G, S]) string {
	return "pk=" + vh.Hex(sh.PublicKeyValue().Bytes()) + ";" + dhjky.PublicText(sh.VerificationVector(), sh.MSP())
}

func sortedIDs(l []sharing.ID) []sharing.ID {
	out := append([]sharing.ID(nil), l...)
	sort.Slice(out, func(i, j int) bool { return out[i] < out[j] })
	return out
}

// RunFull executes the protocol and returns the typed result.
func RunFull[G algebra.PrimeGroupElement[G, S], S algebra.PrimeFieldElement[S]](cfg Config[G, S]) *Result[G, S] {
	tr := drive.NewTrace(Proto)
	prev := sortedIDs(cfg.PrevQuorum)
	next := sortedIDs(cfg.Next.Shareholders().List())
	prevSet := hashset.NewComparable(prev...).Freeze()
	isPrev := map[sharing.ID]bool{}
	isNext := map[sharing.ID]bool{}
	all := map[sharing.ID]bool{}
	for _, id := range prev {
		isPrev[id] = true
		all[id] = true
	}
	for _, id := range next {
		isNext[id] = true
		all[id] = true
	}
	ids := drive.SortedIDs(all)
	res := &Result[G, S]{
		Trace: tr, IDs: ids, Prev: prev, NextIDs: next,
		Shards: map[sharing.ID]*mpc.BaseShard[G, S]{},
		R1B:    map[sharing.ID]*rredist.Round1Broadcast[G, S]{},
		R1U:    map[sharing.ID]map[sharing.ID]*rredist.Round1P2P[G, S]{},
		R2B:    map[sharing.ID]*rredist.Round2Broadcast[G, S]{},
		R2U:    map[sharing.ID]map[sharing.ID]*rredist.Round2P2P[G, S]{},
	}
	ctxs := map[sharing.ID]*rsess.Context{}
	if cfg.Contexts != nil {
		for id, c := range cfg.Contexts {
			if c != nil {
				ctxs[id] = c.Clone()
			}
		}
	} else {
		ctxs, res.Session = dhjky.SessionContexts(cfg.Seed, cfg.Prop, ids, cfg.Labels, nil)
	}

	parts := map[sharing.ID]*rredist.Participant[G, S]{}
	alive := func(id sharing.ID) bool {
		v, ok := tr.Verdicts[id]
		return parts[id] != nil && (!ok || v.Class == "ok")
	}

	// construction (round 0)
	for _, id := range ids {
		tape := drive.NewTape(vh.NewRng(cfg.Seed, cfg.Prop, "tape/"+dhjky.Label(cfg.Labels, id), int(id)))
		tape.Mark = "r0"
		tr.Tapes[id] = tape
		drive.Step(tr, id, 0, func() error {
			ctx := ctxs[id]
			if ctx == nil {
				return fmt.Errorf("no session context for party %d", uint64(id))
			}
			var shard *mpc.BaseShard[G, S]
			// a driving previous holder must pass its shard; a party outside PrevQuorum may legally pass
			// the shard it still holds or nil (NewParticipant ignores neither): the caller decides by
			// what it puts into PrevShards
			shard = cfg.PrevShards[id]
			var opts []rredist.Option
			if cfg.Anchor != 0 {
				opts = append(opts, rredist.WithTrustedAnchorID(cfg.Anchor))
			}
			p, err := rredist.NewParticipant(ctx, prevSet, shard, cfg.Next, tape, opts...)
			if err != nil {
				return err
			}
			parts[id] = p
			return nil
		})
	}

	// ---- round 1
	for _, id := range ids {
		if !alive(id) {
			continue
		}
		tr.Tapes[id].Mark = "r1"
		drive.Step(tr, id, 1, func() error {
			b, u, err := parts[id].Round1()
			if err != nil {
				return err
			}
			res.R1B[id] = b
			res.R1U[id] = map[sharing.ID]*rredist.Round1P2P[G, S]{}
			if u != nil {
				for to, m := range u.Iter() {
					res.R1U[id][to] = m
				}
			}
			return nil
		})
	}
	in1b, in1u := dhjky.DeliverBU(tr, cfg.Hook, 1, ids, alive, res.R1B, res.R1U)

	// ---- round 2
	for _, id := range ids {
		if !alive(id) {
			continue
		}
		tr.Tapes[id].Mark = "r2"
		drive.Step(tr, id, 2, func() error {
			b, u, err := parts[id].Round2(dhjky.Freeze(in1b[id]), dhjky.Freeze(in1u[id]))
			if err != nil {
				return err
			}
			res.R2B[id] = b
			res.R2U[id] = map[sharing.ID]*rredist.Round2P2P[G, S]{}
			if u != nil {
				for to, m := range u.Iter() {
					res.R2U[id][to] = m
				}
			}
			return nil
		})
	}
	in2b, in2u := dhjky.DeliverBU(tr, cfg.Hook, 2, ids, alive, res.R2B, res.R2U)

	// ---- round 3
	for _, id := range ids {
		if !alive(id) {
			continue
		}
		tr.Tapes[id].Mark = "r3"
		drive.Step(tr, id, 3, func() error {
			shard, err := parts[id].Round3(dhjky.Freeze(in2b[id]), dhjky.Freeze(in2u[id]))
			if err != nil {
				return err
			}
			if shard != nil {
				res.Shards[id] = shard
			} else if isNext[id] {
				return fmt.Errorf("next holder %d got no shard", uint64(id))
			}
			return nil
		})
		if sh := res.Shards[id]; sh != nil {
			if p := vh.Safely(func() { tr.Outputs[id] = OutputText(sh) }); p != "" {
				tr.Notes = append(tr.Notes, fmt.Sprintf("output text of %d panicked: %s", uint64(id), p))
			}
		}
	}
	return res
}
