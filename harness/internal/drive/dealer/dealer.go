// Package dealer drives the trusted dealer of /repo/pkg/mpc/dkg/trusteddealer
// (trusteddealer.Deal) under the shared conventions of verif/harness/internal/drive.
//
//	res := dealer.RunFull(dealer.Config[G, S]{Seed: s, Prop: "C03", Group: g, AC: ac})
//	tr  := dealer.Run(cfg); res = dealer.Full[G, S](tr); res.Shards[id]
//
// Conventions
//
//   - There is one acting party, the dealer, recorded under id 0 (the aggregator slot of
//     drive.Trace): Tapes[0] is its recording tape over
//     vh.NewRng(cfg.Seed, cfg.Prop, "tape/"+label, 0), label = cfg.Labels[0], default "a";
//     tape.Mark is "r1" during Deal.  Tape layout (what the model reads): with
//     D = MSP().D() columns, read 0 is the secret, reads 1..D the random column (entry 0 is
//     overwritten by the secret); every read is (bits(q)+128+7)/8 bytes, little endian,
//     reduced mod q.
//   - The dealer hands each shareholder its shard; every shard travels from id 0 to the
//     holder as a round-1 unicast through drive.Pass (CBOR round trip + hook), holders
//     ascending.  A holder whose shard is dropped gets verdict "missing"; one whose shard
//     no longer decodes (the decoder re-runs mpc.NewBaseShard) gets "reject".
//   - Deal runs inside drive.Step for id 0.
//   - Trace.Outputs[id] of a holder: gennaro.ShardText(shard as received).
//   - Deterministic, no goroutines, no `testing` import.
package dealer

import (
	"fmt"
	"sort"
	"sync"

	"github.com/bronlabs/bron-crypto/pkg/base/algebra"
	"github.com/bronlabs/bron-crypto/pkg/mpc"
	"github.com/bronlabs/bron-crypto/pkg/mpc/dkg/trusteddealer"
	"github.com/bronlabs/bron-crypto/pkg/mpc/sharing"
	"github.com/bronlabs/bron-crypto/pkg/mpc/sharing/accessstructures"

	"verif/harness/internal/drive"
	dgen "verif/harness/internal/drive/gennaro"
	"verif/harness/internal/vh"
)

// Proto is Trace.Proto / Msg.Proto of this driver.
const Proto = "dealer"

// Config of one run.
type Config[G algebra.PrimeGroupElement[G, S], S algebra.PrimeFieldElement[S]] struct {
	Seed   int64
	Prop   string
	Labels map[sharing.ID]string // only Labels[0] (the dealer) is used
	Hook   drive.Hook
	Group  algebra.PrimeGroup[G, S]
	AC     accessstructures.Monotone
}

// Result is everything a check may want from one run (typed).
type Result[G algebra.PrimeGroupElement[G, S], S algebra.PrimeFieldElement[S]] struct {
	Trace  *drive.Trace
	IDs    []sharing.ID
	Dealt  map[sharing.ID]*mpc.BaseShard[G, S] // as produced by Deal
	Shards map[sharing.ID]*mpc.BaseShard[G, S] // as received by the holders
}

var (
	regMu sync.Mutex
	reg   = map[*drive.Trace]any{}
)

// Run executes the dealing and returns the trace; Full(trace) gives the typed result.
func Run[G algebra.PrimeGroupElement[G, S], S algebra.PrimeFieldElement[S]](cfg Config[G, S]) *drive.Trace {
	res := RunFull(cfg)
	regMu.Lock()
	reg[res.Trace] = res
	regMu.Unlock()
	return res.Trace
}

// Full returns the typed result belonging to a trace returned by Run (nil otherwise).
func Full[G algebra.PrimeGroupElement[G, S], S algebra.PrimeFieldElement[S]](tr *drive.Trace) *Result[G, S] {
	regMu.Lock()
	defer regMu.Unlock()
	r, _ := reg[tr].(*Result[G, S])
	return r
}

// Shards returns the shards as received by the holders in the run that produced tr.
func Shards[G algebra.PrimeGroupElement[G, S], S algebra.PrimeFieldElement[S]](tr *drive.Trace) map[sharing.ID]*mpc.BaseShard[G, S] {
	if r := Full[G, S](tr); r != nil {
		return r.Shards
	}
	return nil
}

// Forget releases what Run remembered about tr.
func Forget(tr *drive.Trace) {
	regMu.Lock()
	delete(reg, tr)
	regMu.Unlock()
}

// RunFull executes the dealing and returns the typed result.
func RunFull[G algebra.PrimeGroupElement[G, S], S algebra.PrimeFieldElement[S]](cfg Config[G, S]) *Result[G, S] {
	tr := drive.NewTrace(Proto)
	ids := cfg.AC.Shareholders().List()
	sort.Slice(ids, func(i, j int) bool { return ids[i] < ids[j] })
	res := &Result[G, S]{Trace: tr, IDs: ids,
		Dealt: map[sharing.ID]*mpc.BaseShard[G, S]{}, Shards: map[sharing.ID]*mpc.BaseShard[G, S]{}}
	l := "a"
	if x, ok := cfg.Labels[0]; ok && x != "" {
		l = x
	}
	tape := drive.NewTape(vh.NewRng(cfg.Seed, cfg.Prop, "tape/"+l, 0))
	tape.Mark = "r1"
	tr.Tapes[0] = tape
	v := drive.Step(tr, 0, 1, func() error {
		out, err := trusteddealer.Deal(cfg.Group, cfg.AC, &dgen.LockedReader{R: tape})
		if err != nil {
			return err
		}
		for id, sh := range out.Iter() {
			res.Dealt[id] = sh
		}
		return nil
	})
	if v.Class != "ok" {
		return res
	}
	for _, id := range ids {
		sh, ok := res.Dealt[id]
		if !ok {
			tr.Verdicts[id] = drive.Verdict{Class: "missing", Round: 1}
			continue
		}
		got, dropped, err := drive.Pass(tr, cfg.Hook, 1, 0, id, id, sh)
		switch {
		case err != nil:
			drive.Step(tr, id, 1, func() error { return err })
		case dropped:
			tr.Verdicts[id] = drive.Verdict{Class: "missing", Round: 1}
		default:
			drive.Step(tr, id, 1, func() error { return nil })
			res.Shards[id] = got
			if p := vh.Safely(func() { tr.Outputs[id] = dgen.ShardText(got) }); p != "" {
				tr.Notes = append(tr.Notes, fmt.Sprintf("output text of %d panicked: %s", uint64(id), p))
			}
		}
	}
	return res
}
