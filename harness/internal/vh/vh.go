// Package vh holds what every property harness shares: the seeded byte stream all
// random choices derive from, canonical text helpers, the model-driver subprocess,
// and the result file read by bin/check.
package vh

import (
	"bufio"
	"bytes"
	"crypto/sha256"
	"crypto/sha3"
	"encoding/binary"
	"encoding/hex"
	"encoding/json"
	"flag"
	"fmt"
	"math/big"
	"os"
	"os/exec"
	"sort"
	"strings"
	"time"
)

// ---- deterministic randomness ------------------------------------------------

// Rng is a SHAKE-256 stream keyed by (seed, property, stream name, index).
type Rng struct{ h *sha3.SHAKE }

func NewRng(seed int64, prop, stream string, idx int) *Rng {
	h := sha3.NewSHAKE256()
	var b [8]byte
	binary.BigEndian.PutUint64(b[:], uint64(seed))
	h.Write(b[:])
	h.Write([]byte(prop + "/" + stream + "/"))
	binary.BigEndian.PutUint64(b[:], uint64(idx))
	h.Write(b[:])
	return &Rng{h}
}

func (r *Rng) Read(p []byte) (int, error) { return r.h.Read(p) }

func (r *Rng) Bytes(n int) []byte {
	b := make([]byte, n)
	r.h.Read(b)
	return b
}

func (r *Rng) Uint64() uint64 {
	var b [8]byte
	r.h.Read(b[:])
	return binary.BigEndian.Uint64(b[:])
}

// Intn returns a value in [0,n); n > 0.
func (r *Rng) Intn(n int) int { return int(r.Uint64() % uint64(n)) }

func (r *Rng) Bool() bool { return r.Uint64()&1 == 1 }

// Chance returns true with probability num/den.
func (r *Rng) Chance(num, den int) bool { return r.Intn(den) < num }

// BigBelow returns a uniform value in [0, n).
func (r *Rng) BigBelow(n *big.Int) *big.Int {
	if n.Sign() <= 0 {
		return new(big.Int)
	}
	b := r.Bytes((n.BitLen()+7)/8 + 8)
	x := new(big.Int).SetBytes(b)
	return x.Mod(x, n)
}

// BigBits returns a value with at most bits bits.
func (r *Rng) BigBits(bits int) *big.Int {
	if bits <= 0 {
		return new(big.Int)
	}
	b := r.Bytes((bits + 7) / 8)
	x := new(big.Int).SetBytes(b)
	return x.Rsh(x, uint(len(b)*8-bits))
}

func Pick[T any](r *Rng, xs []T) T { return xs[r.Intn(len(xs))] }

// ---- canonical text -----------------------------------------------------------

// Hex renders bytes as lower-case hex, "-" for the empty string.
func Hex(b []byte) string {
	if len(b) == 0 {
		return "-"
	}
	return hex.EncodeToString(b)
}

func UnHex(s string) []byte {
	if s == "-" || s == "" {
		return nil
	}
	b, err := hex.DecodeString(s)
	if err != nil {
		panic("bad hex " + s)
	}
	return b
}

// ZHex renders an integer as lower-case hex without prefix ("0" for zero, '-' sign).
func ZHex(x *big.Int) string { return x.Text(16) }

func UnZHex(s string) *big.Int {
	x, ok := new(big.Int).SetString(s, 16)
	if !ok {
		panic("bad zhex " + s)
	}
	return x
}

// ---- model driver ---------------------------------------------------------------

// Driver runs the extracted OCaml model over a batch of case lines and returns the
// output lines (same order, one per input line).
func Driver(path string, lines []string) ([]string, error) {
	cmd := exec.Command(path)
	cmd.Stdin = strings.NewReader(strings.Join(lines, "\n") + "\n")
	var out, errb bytes.Buffer
	cmd.Stdout = &out
	cmd.Stderr = &errb
	if err := cmd.Run(); err != nil {
		return nil, fmt.Errorf("driver %s: %v: %s", path, err, errb.String())
	}
	var res []string
	sc := bufio.NewScanner(&out)
	sc.Buffer(make([]byte, 1<<20), 1<<30)
	for sc.Scan() {
		res = append(res, sc.Text())
	}
	if len(res) != len(lines) {
		return nil, fmt.Errorf("driver returned %d lines for %d cases: %s", len(res), len(lines), errb.String())
	}
	return res, nil
}

// ---- result ---------------------------------------------------------------------

// Mismatch is one case on which the relation R between model and implementation
// fails (Kind "corr"), or on which the property's own predicate fails on the
// implementation (Kind "prop").
type Mismatch struct {
	ID       string `json:"id"`
	Kind     string `json:"kind"`
	Key      string `json:"key"` // stable identification used by known_findings.txt
	Detail   string `json:"detail"`
	Case     string `json:"case"` // replayable case text
	PropFail bool   `json:"propfail"`
	What     string `json:"what"` // theorem / correspondence that no longer checks
}

type Result struct {
	Property           string         `json:"property"`
	Seed               int64          `json:"seed"`
	Tier               string         `json:"tier"`
	Evaluations        int            `json:"evaluations"`
	DistinctNontrivial int            `json:"distinct_nontrivial"`
	Rule               string         `json:"rule"`
	Samples            []string       `json:"samples"`
	Distribution       map[string]int `json:"distribution"`
	Mismatches         []Mismatch     `json:"mismatches"`
	Notes              []string       `json:"notes"`
	WallS              float64        `json:"wall_s"`

	seen   map[[32]byte]bool
	perKey map[string]int
	start  time.Time
}

func NewResult(prop string, seed int64, tier string) *Result {
	return &Result{Property: prop, Seed: seed, Tier: tier, Distribution: map[string]int{}, seen: map[[32]byte]bool{}, start: time.Now()}
}

// Count registers one evaluated case. canon is the canonical case text (used to
// count distinct cases); nontrivial says whether the case got past the first guard.
func (r *Result) Count(class, canon string, nontrivial bool) {
	r.Evaluations++
	r.Distribution[class]++
	if nontrivial {
		k := sha256.Sum256([]byte(canon))
		if !r.seen[k] {
			r.seen[k] = true
			r.DistinctNontrivial++
		}
	}
	if len(r.Samples) < 6 && (r.Evaluations%97 == 1 || len(r.Samples) == 0) {
		s := canon
		if len(s) > 600 {
			s = s[:600] + "…"
		}
		r.Samples = append(r.Samples, class+": "+s)
	}
}

func (r *Result) Mismatch(m Mismatch) {
	if len(m.Detail) > 2000 {
		m.Detail = m.Detail[:2000] + "…"
	}
	// keep at most 8 mismatches per (key, kind) so that one frequent key cannot crowd out the others
	if r.perKey == nil {
		r.perKey = map[string]int{}
	}
	k := m.Key + "/" + m.Kind
	r.perKey[k]++
	r.Distribution["mismatch:"+k]++
	if r.perKey[k] <= 8 && len(r.Mismatches) < 600 {
		r.Mismatches = append(r.Mismatches, m)
	}
}

func (r *Result) Note(format string, a ...any) { r.Notes = append(r.Notes, fmt.Sprintf(format, a...)) }

func (r *Result) Write(path string) {
	r.WallS = time.Since(r.start).Seconds()
	sort.SliceStable(r.Mismatches, func(i, j int) bool { return len(r.Mismatches[i].Case) < len(r.Mismatches[j].Case) })
	b, _ := json.MarshalIndent(r, "", " ")
	if err := os.WriteFile(path, append(b, '\n'), 0o644); err != nil {
		panic(err)
	}
}

// ---- command line -----------------------------------------------------------------

type Args struct {
	Seed   int64
	Tier   string
	Driver string
	Out    string
	Replay string
	Search bool
}

func ParseArgs() Args {
	var a Args
	flag.Int64Var(&a.Seed, "seed", 1, "seed")
	flag.StringVar(&a.Tier, "tier", "quick", "quick|thorough")
	flag.StringVar(&a.Driver, "driver", "", "path of the extracted model driver")
	flag.StringVar(&a.Out, "out", "", "result json path")
	flag.StringVar(&a.Replay, "replay", "", "replay one stored case file")
	flag.BoolVar(&a.Search, "search", false, "larger budget search for a failing input of the property itself")
	flag.Parse()
	return a
}

// Safely runs f and converts a panic into an error string (decoders and protocol
// steps must never panic; the harness must survive to report it).
func Safely(f func()) (panicked string) {
	defer func() {
		if r := recover(); r != nil {
			panicked = fmt.Sprint(r)
		}
	}()
	f()
	return ""
}
