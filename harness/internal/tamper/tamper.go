package tamper

import (
	"bytes"
	"fmt"
	"sort"
	"strconv"
	"strings"
)

// Leaf kinds.
const (
	KBytes  = "bytes"  // content of a byte string
	KText   = "text"   // content of a text string that is a value
	KUint   = "uint"   // unsigned integer
	KNint   = "nint"   // negative integer
	KArrLen = "arrlen" // number of elements of an array
	KMapLen = "maplen" // number of pairs of a map
	KMapKey = "mapkey" // a map key (field name)
	KTag    = "tag"    // a tag number
	KSimple = "simple" // false / true / null / other simple values and floats
)

// Leaf is one mutable position of a message tree.
type Leaf struct {
	Path  string // stable path, see Walk
	Kind  string
	Field string // name of the top-level field the leaf lives in ("" for the message root)
	Shape string // shape of the node the leaf belongs to
	Bits  int    // number of bits BitFlip can address
	node  *Node
}

// Node returns the tree node of the leaf.
func (l *Leaf) Node() *Node { return l.node }

// Leaves enumerates the leaves of the tree in document order ("^" enters the CBOR item embedded
// in a byte string, e.g. a proof carried as opaque bytes).  Paths: ".name" selects the value
// of the map pair whose key is the text "name" (".#i" the value of pair i when the key is not
// text), "~i" the KEY of pair i, "[i]" element i of an array, "!" the content of a tag; the
// leaf itself is named by a suffix: "" for content (bytes, text, integer, simple), "@len" for an
// array/map length, "@tag" for a tag number.
func Leaves(root *Node) []*Leaf {
	var out []*Leaf
	var walk func(n *Node, path, field string)
	walk = func(n *Node, path, field string) {
		switch n.Major {
		case 0:
			out = append(out, &Leaf{Path: path, Kind: KUint, Field: field, Shape: n.Shape(), Bits: 64, node: n})
		case 1:
			out = append(out, &Leaf{Path: path, Kind: KNint, Field: field, Shape: n.Shape(), Bits: 64, node: n})
		case 2:
			out = append(out, &Leaf{Path: path, Kind: KBytes, Field: field, Shape: n.Shape(), Bits: 8 * len(n.Data), node: n})
			if n.Nested != nil {
				walk(n.Nested, path+"^", field) // "^": inside the CBOR item embedded in this byte string
			}
		case 3:
			out = append(out, &Leaf{Path: path, Kind: KText, Field: field, Shape: n.Shape(), Bits: 8 * len(n.Data), node: n})
		case 4:
			out = append(out, &Leaf{Path: path + "@len", Kind: KArrLen, Field: field, Shape: n.Shape(), node: n})
			for i, k := range n.Kids {
				walk(k, fmt.Sprintf("%s[%d]", path, i), field)
			}
		case 5:
			out = append(out, &Leaf{Path: path + "@len", Kind: KMapLen, Field: field, Shape: n.Shape(), node: n})
			for i := 0; i+1 < len(n.Kids); i += 2 {
				k, v := n.Kids[i], n.Kids[i+1]
				sub := fmt.Sprintf("%s.#%d", path, i/2)
				f := field
				if k.Major == 3 && plainName(k.Data) {
					sub = path + "." + string(k.Data)
					if path == "" {
						f = string(k.Data)
					}
				} else if path == "" {
					f = fmt.Sprintf("#%d", i/2)
				}
				out = append(out, &Leaf{Path: fmt.Sprintf("%s~%d", path, i/2), Kind: KMapKey, Field: f, Shape: k.Shape(), Bits: 8 * len(k.Data), node: k})
				walk(v, sub, f)
			}
		case 6:
			out = append(out, &Leaf{Path: path + "@tag", Kind: KTag, Field: field, Shape: n.Shape(), Bits: 64, node: n})
			walk(n.Kids[0], path+"!", field)
		case 7:
			out = append(out, &Leaf{Path: path, Kind: KSimple, Field: field, Shape: n.Shape(), Bits: 1, node: n})
		}
	}
	walk(root, "", "")
	return out
}

func plainName(b []byte) bool {
	if len(b) == 0 {
		return false
	}
	for _, c := range b {
		if !(c >= 'a' && c <= 'z' || c >= 'A' && c <= 'Z' || c >= '0' && c <= '9' || c == '_') {
			return false
		}
	}
	return true
}

// Find returns the leaf with the given path (nil if the tree has none).
func Find(root *Node, path string) *Leaf {
	for _, l := range Leaves(root) {
		if l.Path == path {
			return l
		}
	}
	return nil
}

// parent returns the node that holds n as a child and the child's index.
func parent(root, n *Node) (*Node, int) {
	for i, k := range root.Kids {
		if k == n {
			return root, i
		}
		if p, j := parent(k, n); p != nil {
			return p, j
		}
	}
	if root.Nested != nil {
		if root.Nested == n {
			return root, -2
		}
		if p, j := parent(root.Nested, n); p != nil {
			return p, j
		}
	}
	return nil, -1
}

// Operator names.
const (
	OpFlip      = "flip"      // BitFlip(I): flip bit I of the leaf's content (integers: of the 64-bit value)
	OpReplace   = "replace"   // ReplaceWith: put a donor subtree of the same shape in place of the leaf's node
	OpSwap      = "swap"      // SwapWith(path'): exchange the leaf's node with another node of the same message
	OpTruncate  = "truncate"  // bytes/text: drop the last byte; array: drop the last element; map: drop the last pair
	OpExtend    = "extend"    // bytes/text: append 0x00; array: repeat the last element; map: repeat the last pair
	OpZero      = "zero"      // bytes/text: all zero bytes; integer: 0
	OpMalformed = "malformed" // whole message: cut the CBOR after I bytes
	OpDrop      = "drop"      // whole message: not delivered
	OpReplay    = "replay"    // whole message: another message of the same type is delivered instead
)

// Op is one mutation operator with its parameters.
type Op struct {
	Kind  string
	I     int    // flip: bit index; malformed: cut position (reduced modulo the size)
	Other string // swap: the second path
	Donor *Node  // replace: the donor subtree;  replay: unused (the caller supplies the bytes)
	Src   string // replace / replay: where the donor came from (case text only)
}

func (o Op) String() string {
	switch o.Kind {
	case OpFlip, OpMalformed:
		return fmt.Sprintf("%s:%d", o.Kind, o.I)
	case OpSwap:
		return o.Kind + ":" + o.Other
	case OpReplace, OpReplay:
		return o.Kind + ":" + o.Src
	}
	return o.Kind
}

// ParseOp parses the text form of an operator (the donor of a replace is resolved by the caller).
func ParseOp(s string) (Op, error) {
	kind, arg, _ := strings.Cut(s, ":")
	o := Op{Kind: kind}
	switch kind {
	case OpFlip, OpMalformed:
		i, err := strconv.Atoi(arg)
		if err != nil {
			return o, fmt.Errorf("bad operator %q", s)
		}
		o.I = i
	case OpSwap:
		o.Other = arg
	case OpReplace, OpReplay:
		o.Src = arg
	case OpTruncate, OpExtend, OpZero, OpDrop:
	default:
		return o, fmt.Errorf("unknown operator %q", s)
	}
	return o, nil
}

// Apply applies op at the leaf `path` of the message `payload` and returns the altered bytes.
// changed is false when the operator does not apply to that leaf or leaves the bytes unchanged.
// OpDrop and OpReplay are whole-message operators handled by the caller.
func Apply(payload []byte, path string, op Op) (out []byte, changed bool, err error) {
	if op.Kind == OpMalformed {
		if len(payload) < 2 {
			return nil, false, nil
		}
		cut := 1 + op.I%(len(payload)-1)
		return append([]byte(nil), payload[:cut]...), true, nil
	}
	root, err := Parse(payload)
	if err != nil {
		return nil, false, err
	}
	l := Find(root, path)
	if l == nil {
		return nil, false, fmt.Errorf("no leaf %q", path)
	}
	n := l.node
	if l.Kind == KBytes {
		n.Nested = nil // the outer bytes themselves are mutated: they are opaque from here on
	}
	switch op.Kind {
	case OpFlip:
		switch l.Kind {
		case KBytes, KText, KMapKey:
			if len(n.Data) == 0 {
				return nil, false, nil
			}
			i := op.I % (8 * len(n.Data))
			n.Data[i/8] ^= 1 << (i % 8)
		case KUint, KNint, KTag:
			n.Arg ^= 1 << (op.I % 64)
		case KSimple:
			switch n.Arg {
			case 20:
				n.Arg, n.AI = 21, 21
			case 21:
				n.Arg, n.AI = 20, 20
			case 22, 23:
				n.Arg, n.AI = 20, 20
			default:
				n.Arg ^= 1
			}
		default:
			return nil, false, nil
		}
	case OpZero:
		switch l.Kind {
		case KBytes, KText:
			for i := range n.Data {
				n.Data[i] = 0
			}
		case KUint, KNint:
			n.Arg = 0
		default:
			return nil, false, nil
		}
	case OpTruncate:
		switch l.Kind {
		case KBytes, KText:
			if len(n.Data) == 0 {
				return nil, false, nil
			}
			n.Data = n.Data[:len(n.Data)-1]
		case KArrLen:
			if len(n.Kids) == 0 {
				return nil, false, nil
			}
			n.Kids = n.Kids[:len(n.Kids)-1]
		case KMapLen:
			if len(n.Kids) < 2 {
				return nil, false, nil
			}
			n.Kids = n.Kids[:len(n.Kids)-2]
		default:
			return nil, false, nil
		}
	case OpExtend:
		switch l.Kind {
		case KBytes, KText:
			n.Data = append(n.Data, 0)
		case KArrLen:
			if len(n.Kids) == 0 {
				n.Kids = append(n.Kids, &Node{Major: 0})
			} else {
				n.Kids = append(n.Kids, n.Kids[len(n.Kids)-1].Clone())
			}
		case KMapLen:
			if len(n.Kids) < 2 {
				return nil, false, nil
			}
			n.Kids = append(n.Kids, n.Kids[len(n.Kids)-2].Clone(), n.Kids[len(n.Kids)-1].Clone())
		default:
			return nil, false, nil
		}
	case OpReplace:
		if op.Donor == nil {
			return nil, false, fmt.Errorf("replace without donor")
		}
		target := n
		if l.Kind == KTag || l.Kind == KArrLen || l.Kind == KMapLen {
			target = n // the whole tagged item / container
		}
		d := op.Donor.Clone()
		*target = *d
	case OpSwap:
		o := Find(root, op.Other)
		if o == nil {
			return nil, false, fmt.Errorf("no leaf %q", op.Other)
		}
		a, b := n, o.node
		if a == b {
			return nil, false, nil
		}
		// one must not contain the other
		if p, _ := parent(a, b); p != nil {
			return nil, false, nil
		}
		if p, _ := parent(b, a); p != nil {
			return nil, false, nil
		}
		*a, *b = *b, *a
	default:
		return nil, false, fmt.Errorf("operator %q is not a leaf operator", op.Kind)
	}
	out = root.Encode()
	return out, !bytes.Equal(out, payload), nil
}

// ---- donors ---------------------------------------------------------------------------------

// Pool indexes every subtree of a set of messages by shape, so that ReplaceWith can pick
// "another valid value of the same kind from another message / party / field of the same run".
type Pool struct {
	by map[string][]donor
}

type donor struct {
	src  string
	node *Node
	enc  []byte
}

func NewPool() *Pool { return &Pool{by: map[string][]donor{}} }

// Add indexes all subtrees of a message; src names the message (e.g. "r1f2t0").
func (p *Pool) Add(src string, payload []byte) {
	root, err := Parse(payload)
	if err != nil {
		return
	}
	var walk func(n *Node, path string)
	walk = func(n *Node, path string) {
		// only value-carrying subtrees are donors: byte/text strings, integers and tagged items
		if n.Major == 2 || n.Major == 3 || n.Major == 0 || n.Major == 1 || n.Major == 6 {
			sh := n.Shape()
			if len(p.by[sh]) < 4096 {
				p.by[sh] = append(p.by[sh], donor{src: src + ":" + path, node: n, enc: n.Encode()})
			}
		}
		switch n.Major {
		case 2:
			if n.Nested != nil {
				walk(n.Nested, path+"^")
			}
		case 4:
			for i, k := range n.Kids {
				walk(k, fmt.Sprintf("%s[%d]", path, i))
			}
		case 5:
			for i := 0; i+1 < len(n.Kids); i += 2 {
				k := n.Kids[i]
				if k.Major == 3 && plainName(k.Data) {
					walk(n.Kids[i+1], path+"."+string(k.Data))
				} else {
					walk(n.Kids[i+1], fmt.Sprintf("%s.#%d", path, i/2))
				}
			}
		case 6:
			walk(n.Kids[0], path+"!")
		}
	}
	walk(root, "")
}

// Donors returns the donors (source name, subtree) whose shape equals that of n and whose
// encoding differs from n's, in a deterministic order (sorted by source).
func (p *Pool) Donors(n *Node) (srcs []string, nodes []*Node) {
	enc := n.Encode()
	ds := p.by[n.Shape()]
	idx := make([]int, 0, len(ds))
	for i, d := range ds {
		if !bytes.Equal(d.enc, enc) {
			idx = append(idx, i)
		}
	}
	sort.SliceStable(idx, func(a, b int) bool { return ds[idx[a]].src < ds[idx[b]].src })
	for _, i := range idx {
		srcs = append(srcs, ds[i].src)
		nodes = append(nodes, ds[i].node)
	}
	return srcs, nodes
}

// Lookup resolves a donor by its source name ("<message>:<path>").
func (p *Pool) Lookup(src string) *Node {
	for _, ds := range p.by {
		for _, d := range ds {
			if d.src == src {
				return d.node
			}
		}
	}
	return nil
}

// ValueNode returns, for a leaf, the subtree that stands for "the value" the leaf is part of:
// the innermost enclosing tagged item if the leaf is the direct content of a tag, else the
// leaf's own node.  ReplaceWith and SwapWith work on value nodes so that a point is replaced
// by a point and a scalar by a scalar.
func ValueNode(root *Node, l *Leaf) *Node {
	p, _ := parent(root, l.node)
	if p != nil && p.Major == 6 && (l.Kind == KBytes || l.Kind == KUint || l.Kind == KText) {
		return p
	}
	return l.node
}

// PathOf returns the path prefix that addresses node n (the path of its content leaf without
// suffix), or "" with ok=false.
func PathOf(root, n *Node) (string, bool) {
	var res string
	found := false
	var walk func(m *Node, path string)
	walk = func(m *Node, path string) {
		if found {
			return
		}
		if m == n {
			res, found = path, true
			return
		}
		switch m.Major {
		case 2:
			if m.Nested != nil {
				walk(m.Nested, path+"^")
			}
		case 4:
			for i, k := range m.Kids {
				walk(k, fmt.Sprintf("%s[%d]", path, i))
			}
		case 5:
			for i := 0; i+1 < len(m.Kids); i += 2 {
				k := m.Kids[i]
				if k.Major == 3 && plainName(k.Data) {
					walk(m.Kids[i+1], path+"."+string(k.Data))
				} else {
					walk(m.Kids[i+1], fmt.Sprintf("%s.#%d", path, i/2))
				}
			}
		case 6:
			walk(m.Kids[0], path+"!")
		}
	}
	walk(root, "")
	return res, found
}

// NodeAt returns the node addressed by a path prefix produced by PathOf.
func NodeAt(root *Node, path string) *Node {
	var res *Node
	var walk func(m *Node, p string)
	walk = func(m *Node, p string) {
		if res != nil {
			return
		}
		if p == path {
			res = m
			return
		}
		if !strings.HasPrefix(path, p) {
			return
		}
		switch m.Major {
		case 2:
			if m.Nested != nil {
				walk(m.Nested, p+"^")
			}
		case 4:
			for i, k := range m.Kids {
				walk(k, fmt.Sprintf("%s[%d]", p, i))
			}
		case 5:
			for i := 0; i+1 < len(m.Kids); i += 2 {
				k := m.Kids[i]
				if k.Major == 3 && plainName(k.Data) {
					walk(m.Kids[i+1], p+"."+string(k.Data))
				} else {
					walk(m.Kids[i+1], fmt.Sprintf("%s.#%d", p, i/2))
				}
			}
		case 6:
			walk(m.Kids[0], p+"!")
		}
	}
	walk(root, "")
	return res
}

// ApplyNode applies replace / swap on NODE paths (as produced by PathOf) instead of leaf paths.
func ApplyNode(payload []byte, nodePath string, op Op) (out []byte, changed bool, err error) {
	root, err := Parse(payload)
	if err != nil {
		return nil, false, err
	}
	a := NodeAt(root, nodePath)
	if a == nil {
		return nil, false, fmt.Errorf("no node %q", nodePath)
	}
	switch op.Kind {
	case OpReplace:
		if op.Donor == nil {
			return nil, false, fmt.Errorf("replace without donor")
		}
		*a = *op.Donor.Clone()
	case OpSwap:
		b := NodeAt(root, op.Other)
		if b == nil {
			return nil, false, fmt.Errorf("no node %q", op.Other)
		}
		if a == b {
			return nil, false, nil
		}
		if p, _ := parent(a, b); p != nil {
			return nil, false, nil
		}
		if p, _ := parent(b, a); p != nil {
			return nil, false, nil
		}
		*a, *b = *b, *a
	default:
		return nil, false, fmt.Errorf("operator %q is not a node operator", op.Kind)
	}
	out = root.Encode()
	return out, !bytes.Equal(out, payload), nil
}
