// Package tamper is a generic CBOR tree mutation engine for property C04: it decodes the
// CBOR bytes of one protocol message into a tree, enumerates the tree's leaves with stable
// paths, applies one mutation operator to one leaf and re-encodes.  Everything outside the
// mutated leaf is re-encoded byte-for-byte as it was (the width of every head is preserved),
// so a mutation changes exactly what it says.
//
// The decoder is written here from RFC 8949 (definite lengths only, which is all the
// library's deterministic encoder emits); nothing in this package uses /repo.
package tamper

import (
	"encoding/binary"
	"errors"
	"fmt"
)

// Node is one CBOR data item.
type Node struct {
	Major byte    // major type 0..7
	AI    byte    // additional information as it was encoded (selects the width of the head)
	Arg   uint64  // value (0,1), length (2,3,4,5), tag number (6), simple value / float bits (7)
	Data  []byte  // content of a byte (2) or text (3) string
	Kids  []*Node // 4: elements; 5: key0,value0,key1,value1,...; 6: the tagged item
	// Nested: a byte string whose whole content is itself one CBOR array / map / tagged item (a
	// proof carried as opaque bytes) is ALSO parsed; when Nested is set Encode re-encodes it as the
	// content, so that leaves inside the embedded item can be mutated.
	Nested *Node
}

var errTrunc = errors.New("cbor: truncated")

// Parse decodes exactly one data item that spans all of b.
func Parse(b []byte) (*Node, error) {
	n, rest, err := parse(b, 0)
	if err != nil {
		return nil, err
	}
	if len(rest) != 0 {
		return nil, fmt.Errorf("cbor: %d trailing bytes", len(rest))
	}
	expandNested(n, 0)
	return n, nil
}

// expandNested parses byte strings that hold exactly one embedded CBOR container.
func expandNested(n *Node, depth int) {
	if depth > 3 {
		return
	}
	if n.Major == 2 && len(n.Data) >= 2 {
		if m := n.Data[0] >> 5; m == 4 || m == 5 || m == 6 {
			if in, rest, err := parse(n.Data, 0); err == nil && len(rest) == 0 && len(in.Kids) > 0 {
				// only if re-encoding reproduces the bytes (otherwise leave it opaque)
				if string(in.Encode()) == string(n.Data) {
					n.Nested = in
					expandNested(in, depth+1)
				}
			}
		}
	}
	for _, k := range n.Kids {
		expandNested(k, depth)
	}
}

func parse(b []byte, depth int) (*Node, []byte, error) {
	if depth > 64 {
		return nil, nil, errors.New("cbor: nesting too deep")
	}
	if len(b) == 0 {
		return nil, nil, errTrunc
	}
	n := &Node{Major: b[0] >> 5, AI: b[0] & 31}
	b = b[1:]
	switch {
	case n.AI < 24:
		n.Arg = uint64(n.AI)
	case n.AI == 24:
		if len(b) < 1 {
			return nil, nil, errTrunc
		}
		n.Arg, b = uint64(b[0]), b[1:]
	case n.AI == 25:
		if len(b) < 2 {
			return nil, nil, errTrunc
		}
		n.Arg, b = uint64(binary.BigEndian.Uint16(b)), b[2:]
	case n.AI == 26:
		if len(b) < 4 {
			return nil, nil, errTrunc
		}
		n.Arg, b = uint64(binary.BigEndian.Uint32(b)), b[4:]
	case n.AI == 27:
		if len(b) < 8 {
			return nil, nil, errTrunc
		}
		n.Arg, b = binary.BigEndian.Uint64(b), b[8:]
	default:
		return nil, nil, fmt.Errorf("cbor: additional information %d not supported", n.AI)
	}
	switch n.Major {
	case 0, 1, 7:
	case 2, 3:
		if uint64(len(b)) < n.Arg {
			return nil, nil, errTrunc
		}
		n.Data = append([]byte(nil), b[:n.Arg]...)
		b = b[n.Arg:]
	case 4, 5:
		cnt := n.Arg
		if n.Major == 5 {
			cnt *= 2
		}
		if cnt > uint64(len(b)) {
			return nil, nil, errTrunc
		}
		n.Kids = make([]*Node, 0, cnt)
		for i := uint64(0); i < cnt; i++ {
			k, rest, err := parse(b, depth+1)
			if err != nil {
				return nil, nil, err
			}
			n.Kids = append(n.Kids, k)
			b = rest
		}
	case 6:
		k, rest, err := parse(b, depth+1)
		if err != nil {
			return nil, nil, err
		}
		n.Kids = []*Node{k}
		b = rest
	}
	return n, b, nil
}

func fits(ai byte, v uint64) bool {
	switch {
	case ai < 24:
		return v == uint64(ai)
	case ai == 24:
		return v < 1<<8
	case ai == 25:
		return v < 1<<16
	case ai == 26:
		return v < 1<<32
	case ai == 27:
		return true
	}
	return false
}

func minimalAI(v uint64) byte {
	switch {
	case v < 24:
		return byte(v)
	case v < 1<<8:
		return 24
	case v < 1<<16:
		return 25
	case v < 1<<32:
		return 26
	}
	return 27
}

// Encode re-encodes the tree.  A head keeps its original width when the argument still fits
// it (so untouched items are reproduced byte for byte); otherwise the shortest head is used.
func (n *Node) Encode() []byte { return n.append(nil) }

func (n *Node) append(out []byte) []byte {
	arg := n.Arg
	if n.Major == 2 && n.Nested != nil {
		n.Data = n.Nested.Encode()
	}
	switch n.Major {
	case 2, 3:
		arg = uint64(len(n.Data))
	case 4:
		arg = uint64(len(n.Kids))
	case 5:
		arg = uint64(len(n.Kids) / 2)
	}
	ai := n.AI
	if n.Major == 7 {
		// simple values and floats: the width is part of the value
		if ai < 24 {
			ai = byte(arg)
		}
	} else if !fits(ai, arg) || (ai < 24 && byte(arg) != ai) {
		ai = minimalAI(arg)
	}
	out = append(out, n.Major<<5|ai)
	switch ai {
	case 24:
		out = append(out, byte(arg))
	case 25:
		out = binary.BigEndian.AppendUint16(out, uint16(arg))
	case 26:
		out = binary.BigEndian.AppendUint32(out, uint32(arg))
	case 27:
		out = binary.BigEndian.AppendUint64(out, arg)
	}
	switch n.Major {
	case 2, 3:
		out = append(out, n.Data...)
	case 4, 5, 6:
		for _, k := range n.Kids {
			out = k.append(out)
		}
	}
	return out
}

// Clone is a deep copy.
func (n *Node) Clone() *Node {
	c := *n
	c.Data = append([]byte(nil), n.Data...)
	c.Kids = make([]*Node, len(n.Kids))
	for i, k := range n.Kids {
		c.Kids[i] = k.Clone()
	}
	if n.Nested != nil {
		c.Nested = n.Nested.Clone()
	}
	return &c
}

// Shape is a short signature of what kind of value a subtree is: two subtrees with the same
// shape are interchangeable as far as the decoder's structural checks go (same tags, same
// container sizes, same byte lengths), e.g. "t5010(b33)" for a tagged 33-byte string.
func (n *Node) Shape() string {
	switch n.Major {
	case 0:
		return "u"
	case 1:
		return "n"
	case 2:
		return fmt.Sprintf("b%d", len(n.Data))
	case 3:
		return fmt.Sprintf("s%d", len(n.Data))
	case 4:
		s := fmt.Sprintf("a%d[", len(n.Kids))
		for i, k := range n.Kids {
			if i >= 3 {
				s += ".."
				break
			}
			s += k.Shape() + ","
		}
		return s + "]"
	case 5:
		s := fmt.Sprintf("m%d{", len(n.Kids)/2)
		for i := 0; i+1 < len(n.Kids); i += 2 {
			if i >= 8 {
				s += ".."
				break
			}
			if n.Kids[i].Major == 3 {
				s += string(n.Kids[i].Data) + ":"
			}
			s += n.Kids[i+1].Shape() + ","
		}
		return s + "}"
	case 6:
		return fmt.Sprintf("t%d(%s)", n.Arg, n.Kids[0].Shape())
	}
	return fmt.Sprintf("x%d", n.Arg)
}
