package main

// genSerdeDtos: T-const for C12 — the wire field names of the DTO structs whose schemas are
// hand-modelled in coq/model/Schema.v, read from the struct declarations (the `cbor:"name[,omitempty]"`
// tags; the Go field name when a field has no tag), in declaration order.  proofs/Schema_proofs.v
// proves that the field lists of the model's schemas are exactly these (dto_fields_agree), so a
// renamed, added or removed wire field breaks that proof before any test runs.
//
// Fails loudly when a listed struct is missing, is not a struct, has embedded fields, a `toarray`
// / `keyasint` option or a tag it cannot parse.

import (
	"fmt"
	"go/ast"
	"go/parser"
	"go/token"
	"os"
	"path/filepath"
	"reflect"
	"strconv"
	"strings"
)

func init() { register("SerdeDtos", genSerdeDtos) }

// (Coq name, package directory, receiver type whose UnmarshalCBOR decodes the DTO).  The DTO struct
// is found through the type argument of the serde.UnmarshalCBOR[...] call in that method, so
// renaming the (unexported) DTO type or moving code between files of the package is harmless.
var serdeDtoList = []struct{ coq, dir, recv string }{
	{"threshold", "pkg/mpc/sharing/accessstructures/threshold", "Threshold"},
	{"unanimity", "pkg/mpc/sharing/accessstructures/unanimity", "Unanimity"},
	{"cnf", "pkg/mpc/sharing/accessstructures/cnf", "CNF"},
	{"hierarchical", "pkg/mpc/sharing/accessstructures/hierarchical", "HierarchicalConjunctiveThreshold"},
	{"hierarchical_level", "pkg/mpc/sharing/accessstructures/hierarchical", "ThresholdLevel"},
	{"boolexpr", "pkg/mpc/sharing/accessstructures/boolexpr", "ThresholdGateAccessStructure"},
	{"boolexpr_node", "pkg/mpc/sharing/accessstructures/boolexpr", "Node"},
	{"msp", "pkg/mpc/sharing/scheme/kw/msp", "MSP"},
	{"kwshare", "pkg/mpc/sharing/scheme/kw", "Share"},
	{"feldman_lifted", "pkg/mpc/sharing/vss/feldman", "LiftedShare"},
	{"feldman_vv", "pkg/mpc/sharing/vss/feldman", "VerificationVector"},
	{"basepublic", "pkg/mpc", "BasePublicMaterial"},
	{"baseshard", "pkg/mpc", "BaseShard"},
	{"ecdsasig", "pkg/signatures/ecdsa", "Signature"},
	{"dkls23partial", "pkg/mpc/signatures/ecdsa/dkls23", "PartialSignature"},
	{"pedersen_share", "pkg/mpc/sharing/vss/pedersen", "Share"},
	{"pedersen_lifted", "pkg/mpc/sharing/vss/pedersen", "LiftedShare"},
	{"pedcom_message", "pkg/commitments/pedersencom", "Message"},
	{"pedcom_witness", "pkg/commitments/pedersencom", "Witness"},
	{"pedcom_commitment", "pkg/commitments/pedersencom", "Commitment"},
	{"matrix", "pkg/base/mat", "Matrix"},
	{"mvmatrix", "pkg/base/mat", "ModuleValuedMatrix"},
	{"sqmatrix", "pkg/base/mat", "SquareMatrix"},
	{"num_nat", "pkg/base/nt/num", "Nat"},
	{"num_int", "pkg/base/nt/num", "Int"},
	{"num_natplus", "pkg/base/nt/num", "NatPlus"},
	{"numct_nat", "pkg/base/nt/numct", "Nat"},
	{"numct_int", "pkg/base/nt/numct", "Int"},
	{"k256_scalar", "pkg/base/curves/k256", "Scalar"},
	{"k256_point", "pkg/base/curves/k256", "Point"},
	{"p256_scalar", "pkg/base/curves/p256", "Scalar"},
	{"p256_point", "pkg/base/curves/p256", "Point"},
	{"bls12381_scalar", "pkg/base/curves/pairable/bls12381", "Scalar"},
	{"bls12381_g1", "pkg/base/curves/pairable/bls12381", "PointG1"},
}

// dtoOf finds, in the parsed files of one package, the struct type that recv.UnmarshalCBOR passes
// as type argument to serde.UnmarshalCBOR.
func dtoOf(fset *token.FileSet, files []*ast.File, recv string) (*ast.TypeSpec, *ast.StructType, error) {
	var m *ast.FuncDecl
	for _, f := range files {
		if fd := findMethod(f, recv, "UnmarshalCBOR"); fd != nil {
			m = fd
			break
		}
	}
	if m == nil {
		return nil, nil, fmt.Errorf("method %s.UnmarshalCBOR not found", recv)
	}
	name := ""
	ast.Inspect(m.Body, func(n ast.Node) bool {
		if name != "" {
			return false
		}
		var fun, arg ast.Expr
		switch x := n.(type) {
		case *ast.IndexExpr:
			fun, arg = x.X, x.Index
		case *ast.IndexListExpr:
			if len(x.Indices) == 1 {
				fun, arg = x.X, x.Indices[0]
			}
		}
		sel, ok := fun.(*ast.SelectorExpr)
		if !ok || sel.Sel.Name != "UnmarshalCBOR" {
			return true
		}
		if id, ok := sel.X.(*ast.Ident); !ok || id.Name != "serde" {
			return true
		}
		// strip pointer and type arguments: *dto[E, S] -> dto
		for {
			switch a := arg.(type) {
			case *ast.StarExpr:
				arg = a.X
				continue
			case *ast.IndexExpr:
				arg = a.X
				continue
			case *ast.IndexListExpr:
				arg = a.X
				continue
			case *ast.ParenExpr:
				arg = a.X
				continue
			}
			break
		}
		if id, ok := arg.(*ast.Ident); ok {
			name = id.Name
		}
		return true
	})
	if name == "" {
		return nil, nil, fmt.Errorf("%s.UnmarshalCBOR: no serde.UnmarshalCBOR[<DTO>] call with a named DTO type", recv)
	}
	for _, f := range files {
		for _, decl := range f.Decls {
			gd, ok := decl.(*ast.GenDecl)
			if !ok {
				continue
			}
			for _, s := range gd.Specs {
				if ts, ok := s.(*ast.TypeSpec); ok && ts.Name.Name == name {
					st, ok := ts.Type.(*ast.StructType)
					if !ok {
						return nil, nil, fmt.Errorf("%s.UnmarshalCBOR decodes into %s, which is not a struct", recv, name)
					}
					return ts, st, nil
				}
			}
		}
	}
	return nil, nil, fmt.Errorf("%s.UnmarshalCBOR decodes into %s, not declared in the package", recv, name)
}

func genSerdeDtos(repo string) (string, map[string]string, error) {
	hashes := map[string]string{}
	fset := token.NewFileSet()
	pkgs := map[string][]*ast.File{}
	var sb strings.Builder
	sb.WriteString("(* GENERATED by /verif/translator (unit SerdeDtos) from the DTO struct declarations — do not edit *)\n")
	sb.WriteString("From Coq Require Import List NArith Bool.\nImport ListNotations.\nLocal Open Scope N_scope.\n\n")
	sb.WriteString("(* (wire field name as UTF-8 bytes, omitempty?) in declaration order *)\n")
	for _, d := range serdeDtoList {
		files, ok := pkgs[d.dir]
		if !ok {
			ents, err := os.ReadDir(filepath.Join(repo, d.dir))
			if err != nil {
				return "", nil, err
			}
			for _, e := range ents {
				if e.IsDir() || !strings.HasSuffix(e.Name(), ".go") || strings.HasSuffix(e.Name(), "_test.go") {
					continue
				}
				f, err := parser.ParseFile(fset, filepath.Join(repo, d.dir, e.Name()), nil, 0)
				if err != nil {
					return "", nil, err
				}
				files = append(files, f)
			}
			pkgs[d.dir] = files
		}
		spec, st, err := dtoOf(fset, files, d.recv)
		if err != nil {
			return "", nil, fmt.Errorf("%s: %v", d.dir, err)
		}
		hashes[d.coq] = hashText(src(fset, spec))
		var items []string
		var comment []string
		for _, fld := range st.Fields.List {
			if len(fld.Names) == 0 {
				return "", nil, fmt.Errorf("%s.%s: embedded field %s", d.dir, d.recv, src(fset, fld.Type))
			}
			for _, nm := range fld.Names {
				if !nm.IsExported() {
					continue // encoding ignores unexported fields
				}
				name, omit := nm.Name, false
				if fld.Tag != nil {
					raw, err := strconv.Unquote(fld.Tag.Value)
					if err != nil {
						return "", nil, fmt.Errorf("%s.%s.%s: tag %s", d.dir, d.recv, nm.Name, fld.Tag.Value)
					}
					tag, ok := reflect.StructTag(raw).Lookup("cbor")
					if ok {
						parts := strings.Split(tag, ",")
						if parts[0] == "-" {
							continue
						}
						if parts[0] != "" {
							name = parts[0]
						}
						for _, o := range parts[1:] {
							switch o {
							case "omitempty":
								omit = true
							default:
								return "", nil, fmt.Errorf("%s.%s.%s: unsupported cbor tag option %q", d.dir, d.recv, nm.Name, o)
							}
						}
					}
				}
				b := "false"
				if omit {
					b = "true"
				}
				items = append(items, fmt.Sprintf("(%s, %s)", coqBytesOfString(name), b))
				comment = append(comment, name)
			}
		}
		fmt.Fprintf(&sb, "(* %s %s: %s *)\n", d.dir, d.recv, strings.Join(comment, ", "))
		fmt.Fprintf(&sb, "Definition dto_%s : list (list N * bool) :=\n  [ %s ].\n\n", d.coq, strings.Join(items, ";\n    "))
	}
	return sb.String(), hashes, nil
}
