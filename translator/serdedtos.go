package main

// genSerdeDtos: T-const for C12 — the wire field names of the DTO structs whose schemas are
// hand-modelled in coq/model/Schema.v, read from the struct declarations (the `cbor:"name[,omitempty]"`
// tags; the Go field name when a field has no tag), in declaration order.  proofs/Schema_proofs.v
// proves that the field lists of the model's schemas are exactly these (dto_fields_agree), so a
// renamed, added or removed wire field breaks that proof before any test runs.
//
// Fails loudly when a listed struct is missing, is not a struct, has embedded fields, a `toarray`
// / `keyasint` option or a tag it cannot parse.

import (
	"fmt"
	"go/ast"
	"go/parser"
	"go/token"
	"os"
	"path/filepath"
	"reflect"
	"strconv"
	"strings"
)

func init() { register("SerdeDtos", genSerdeDtos) }

// (Coq name, package directory, receiver type whose UnmarshalCBOR decodes the DTO).  The DTO struct
// is found through the type argument of the serde.UnmarshalCBOR[...] call in that method, so
// renaming the (unexported) DTO type or moving code between files of the package is harmless.
var serdeDtoList = []struct{ coq, dir, recv string }{
	{"threshold", "pkg/mpc/sharing/accessstructures/threshold", "Threshold"},
	{"unanimity", "pkg/mpc/sharing/accessstructures/unanimity", "Unanimity"},
	{"cnf", "pkg/mpc/sharing/accessstructures/cnf", "CNF"},
	{"hierarchical", "pkg/mpc/sharing/accessstructures/hierarchical", "HierarchicalConjunctiveThreshold"},
	{"hierarchical_level", "pkg/mpc/sharing/accessstructures/hierarchical", "ThresholdLevel"},
	{"boolexpr", "pkg/mpc/sharing/accessstructures/boolexpr", "ThresholdGateAccessStructure"},
	{"boolexpr_node", "pkg/mpc/sharing/accessstructures/boolexpr", "Node"},
	{"msp", "pkg/mpc/sharing/scheme/kw/msp", "MSP"},
	{"kwshare", "pkg/mpc/sharing/scheme/kw", "Share"},
	{"feldman_lifted", "pkg/mpc/sharing/vss/feldman", "LiftedShare"},
	{"feldman_vv", "pkg/mpc/sharing/vss/feldman", "VerificationVector"},
	{"basepublic", "pkg/mpc", "BasePublicMaterial"},
	{"baseshard", "pkg/mpc", "BaseShard"},
	{"ecdsasig", "pkg/signatures/ecdsa", "Signature"},
	{"dkls23partial", "pkg/mpc/signatures/ecdsa/dkls23", "PartialSignature"},
	{"pedersen_share", "pkg/mpc/sharing/vss/pedersen", "Share"},
	{"pedersen_lifted", "pkg/mpc/sharing/vss/pedersen", "LiftedShare"},
	{"pedcom_message", "pkg/commitments/pedersencom", "Message"},
	{"pedcom_witness", "pkg/commitments/pedersencom", "Witness"},
	{"pedcom_commitment", "pkg/commitments/pedersencom", "Commitment"},
	{"matrix", "pkg/base/mat", "Matrix"},
	{"mvmatrix", "pkg/base/mat", "ModuleValuedMatrix"},
	{"sqmatrix", "pkg/base/mat", "SquareMatrix"},
	{"num_nat", "pkg/base/nt/num", "Nat"},
	{"num_int", "pkg/base/nt/num", "Int"},
	{"num_natplus", "pkg/base/nt/num", "NatPlus"},
	{"num_uint", "pkg/base/nt/num", "Uint"},
	{"numct_modulus", "pkg/base/nt/numct", "Modulus"},
	{"numct_nat", "pkg/base/nt/numct", "Nat"},
	{"numct_int", "pkg/base/nt/numct", "Int"},
	{"k256_scalar", "pkg/base/curves/k256", "Scalar"},
	{"k256_point", "pkg/base/curves/k256", "Point"},
	{"p256_scalar", "pkg/base/curves/p256", "Scalar"},
	{"p256_point", "pkg/base/curves/p256", "Point"},
	{"bls12381_scalar", "pkg/base/curves/pairable/bls12381", "Scalar"},
	{"bls12381_g1", "pkg/base/curves/pairable/bls12381", "PointG1"},
}

// dtoOf finds, in the parsed files of one package, the struct type that recv.UnmarshalCBOR passes
// as type argument to serde.UnmarshalCBOR.
func dtoOf(fset *token.FileSet, files []*ast.File, recv string) (*ast.TypeSpec, *ast.StructType, error) {
	var m *ast.FuncDecl
	for _, f := range files {
		if fd := findMethod(f, recv, "UnmarshalCBOR"); fd != nil {
			m = fd
			break
		}
	}
	if m == nil {
		return nil, nil, fmt.Errorf("method %s.UnmarshalCBOR not found", recv)
	}
	name := ""
	ast.Inspect(m.Body, func(n ast.Node) bool {
		if name != "" {
			return false
		}
		var fun, arg ast.Expr
		switch x := n.(type) {
		case *ast.IndexExpr:
			fun, arg = x.X, x.Index
		case *ast.IndexListExpr:
			if len(x.Indices) == 1 {
				fun, arg = x.X, x.Indices[0]
			}
		}
		sel, ok := fun.(*ast.SelectorExpr)
		if !ok || sel.Sel.Name != "UnmarshalCBOR" {
			return true
		}
		if id, ok := sel.X.(*ast.Ident); !ok || id.Name != "serde" {
			return true
		}
		// strip pointer and type arguments: *dto[E, S] -> dto
		for {
			switch a := arg.(type) {
			case *ast.StarExpr:
				arg = a.X
				continue
			case *ast.IndexExpr:
				arg = a.X
				continue
			case *ast.IndexListExpr:
				arg = a.X
				continue
			case *ast.ParenExpr:
				arg = a.X
				continue
			}
			break
		}
		if id, ok := arg.(*ast.Ident); ok {
			name = id.Name
		}
		return true
	})
	if name == "" {
		return nil, nil, fmt.Errorf("%s.UnmarshalCBOR: no serde.UnmarshalCBOR[<DTO>] call with a named DTO type", recv)
	}
	for _, f := range files {
		for _, decl := range f.Decls {
			gd, ok := decl.(*ast.GenDecl)
			if !ok {
				continue
			}
			for _, s := range gd.Specs {
				if ts, ok := s.(*ast.TypeSpec); ok && ts.Name.Name == name {
					st, ok := ts.Type.(*ast.StructType)
					if !ok {
						return nil, nil, fmt.Errorf("%s.UnmarshalCBOR decodes into %s, which is not a struct", recv, name)
					}
					return ts, st, nil
				}
			}
		}
	}
	return nil, nil, fmt.Errorf("%s.UnmarshalCBOR decodes into %s, not declared in the package", recv, name)
}

// Shallow groups: DTO structs known to the model only by their wire field names (every value
// schema is "any"; the model's rule is "no component missing or null").  A group is addressed by
// the prefix of the harness' type name; it may hold several candidate structs (all message structs
// of a protocol package): an item conforms if its keys are fields of one of them.
//
//	strict = the type's UnmarshalCBOR validates (nil components are refused at decoding);
//	otherwise (plain message structs decoded by reflection) missing components are refused by
//	Validate in the round function, not by the decoder.
type serdeGroup struct {
	name   string
	strict bool
	recvs  [][2]string // (dir, receiver): DTO found through recv.UnmarshalCBOR
	files  []string    // every struct type declared in these files with at least one exported field
}

var serdeGroupList = []serdeGroup{
	{name: "schnorr-commitment", strict: true, recvs: [][2]string{{"pkg/proofs/internal/meta/maurer09", "Commitment"}}},
	{name: "schnorr-response", strict: true, recvs: [][2]string{{"pkg/proofs/internal/meta/maurer09", "Response"}}},
	{name: "schnorr-statement", strict: true, recvs: [][2]string{{"pkg/proofs/internal/meta/maurer09", "Statement"}}},
	{name: "schnorr-witness", strict: true, recvs: [][2]string{{"pkg/proofs/internal/meta/maurer09", "Witness"}}},
	{name: "schnorrproof", strict: true, recvs: [][2]string{{"pkg/proofs/sigma/compiler/fiatshamir/zkmodule", "Proof"}}},
	{name: "pedersencom-key", strict: true, recvs: [][2]string{{"pkg/commitments/pedersencom", "CommitmentKey"}}},
	{name: "pedersencom-trapdoor", strict: true, recvs: [][2]string{{"pkg/commitments/pedersencom", "TrapdoorKey"}}},
	{name: "pedersencom-message", strict: true, recvs: [][2]string{{"pkg/commitments/pedersencom", "Message"}}},
	{name: "pedersencom-witness", strict: true, recvs: [][2]string{{"pkg/commitments/pedersencom", "Witness"}}},
	{name: "pedersencom-commitment", strict: true, recvs: [][2]string{{"pkg/commitments/pedersencom", "Commitment"}}},
	{name: "polynomial", strict: true, recvs: [][2]string{{"pkg/base/polynomials", "Polynomial"}}},
	{name: "mvpolynomial", strict: true, recvs: [][2]string{{"pkg/base/polynomials", "ModuleValuedPolynomial"}}},
	{name: "msg-session", files: []string{"pkg/mpc/session/messages.go"}},
	{name: "msg-gennaro", files: []string{"pkg/mpc/dkg/gennaro/messages.go"}},
	{name: "msg-canetti", files: []string{"pkg/mpc/dkg/canetti/messages.go"}},
	{name: "msg-hjky", files: []string{"pkg/mpc/zero/hjky/messages.go"}},
	{name: "msg-redistribute", files: []string{"pkg/mpc/redistribute/messages.go"}},
	// the last "round" of a signing run carries the partial signatures to the aggregator
	{name: "msg-dkls23-bbot", files: []string{"pkg/mpc/signatures/ecdsa/dkls23/signing_bbot/messages.go"}, recvs: [][2]string{{"pkg/mpc/signatures/ecdsa/dkls23", "PartialSignature"}}},
	{name: "msg-dkls23-softspoken", files: []string{"pkg/mpc/signatures/ecdsa/dkls23/signing_softspoken/messages.go"}, recvs: [][2]string{{"pkg/mpc/signatures/ecdsa/dkls23", "PartialSignature"}}},
	{name: "msg-lindell22", files: []string{"pkg/mpc/signatures/schnorr/lindell22/signing/messages.go", "pkg/mpc/signatures/schnorr/lindell22/lindell22.go"}},
	{name: "msg-lindell17", files: []string{"pkg/mpc/signatures/ecdsa/lindell17/signing/messages.go", "pkg/mpc/signatures/ecdsa/lindell17/keygen/dkg/messages.go"}},
	{name: "msg-cggmp21", files: []string{"pkg/mpc/signatures/ecdsa/cggmp21/signing/messages.go", "pkg/mpc/signatures/ecdsa/cggmp21/keygen/dkg/messages.go", "pkg/mpc/signatures/ecdsa/cggmp21/partial.go"}},
	{name: "msg-aor", files: []string{"pkg/mpc/aor/messages.go"}},
}

// dtoWireFields renders the wire fields of a struct: (coq list items, names) or an error.
func dtoWireFields(fset *token.FileSet, where string, st *ast.StructType) ([]string, []string, error) {
	var items, comment []string
	for _, fld := range st.Fields.List {
		if len(fld.Names) == 0 {
			return nil, nil, fmt.Errorf("%s: embedded field %s", where, src(fset, fld.Type))
		}
		for _, nm := range fld.Names {
			if !nm.IsExported() {
				continue // encoding ignores unexported fields
			}
			name, omit := nm.Name, false
			if fld.Tag != nil {
				raw, err := strconv.Unquote(fld.Tag.Value)
				if err != nil {
					return nil, nil, fmt.Errorf("%s.%s: tag %s", where, nm.Name, fld.Tag.Value)
				}
				if tag, ok := reflect.StructTag(raw).Lookup("cbor"); ok {
					parts := strings.Split(tag, ",")
					if parts[0] == "-" {
						continue
					}
					if parts[0] != "" {
						name = parts[0]
					}
					for _, o := range parts[1:] {
						switch o {
						case "omitempty":
							omit = true
						default:
							return nil, nil, fmt.Errorf("%s.%s: unsupported cbor tag option %q", where, nm.Name, o)
						}
					}
				}
			}
			b := "false"
			if omit {
				b = "true"
			}
			items = append(items, fmt.Sprintf("(%s, %s)", coqBytesOfString(name), b))
			comment = append(comment, name)
		}
	}
	return items, comment, nil
}

func genSerdeDtos(repo string) (string, map[string]string, error) {
	hashes := map[string]string{}
	fset := token.NewFileSet()
	pkgs := map[string][]*ast.File{}
	var sb strings.Builder
	sb.WriteString("(* GENERATED by /verif/translator (unit SerdeDtos) from the DTO struct declarations — do not edit *)\n")
	sb.WriteString("From Coq Require Import List NArith Bool.\nImport ListNotations.\nLocal Open Scope N_scope.\n\n")
	sb.WriteString("(* (wire field name as UTF-8 bytes, omitempty?) in declaration order *)\n")
	for _, d := range serdeDtoList {
		files, ok := pkgs[d.dir]
		if !ok {
			ents, err := os.ReadDir(filepath.Join(repo, d.dir))
			if err != nil {
				return "", nil, err
			}
			for _, e := range ents {
				if e.IsDir() || !strings.HasSuffix(e.Name(), ".go") || strings.HasSuffix(e.Name(), "_test.go") {
					continue
				}
				f, err := parser.ParseFile(fset, filepath.Join(repo, d.dir, e.Name()), nil, 0)
				if err != nil {
					return "", nil, err
				}
				files = append(files, f)
			}
			pkgs[d.dir] = files
		}
		spec, st, err := dtoOf(fset, files, d.recv)
		if err != nil {
			return "", nil, fmt.Errorf("%s: %v", d.dir, err)
		}
		hashes[d.coq] = hashText(src(fset, spec))
		items, comment, err := dtoWireFields(fset, d.dir+"."+d.recv, st)
		if err != nil {
			return "", nil, err
		}
		fmt.Fprintf(&sb, "(* %s %s: %s *)\n", d.dir, d.recv, strings.Join(comment, ", "))
		fmt.Fprintf(&sb, "Definition dto_%s : list (list N * bool) :=\n  [ %s ].\n\n", d.coq, strings.Join(items, ";\n    "))
	}
	// shallow groups
	loadDir := func(dir string) ([]*ast.File, error) {
		if files, ok := pkgs[dir]; ok {
			return files, nil
		}
		ents, err := os.ReadDir(filepath.Join(repo, dir))
		if err != nil {
			return nil, err
		}
		var files []*ast.File
		for _, e := range ents {
			if e.IsDir() || !strings.HasSuffix(e.Name(), ".go") || strings.HasSuffix(e.Name(), "_test.go") {
				continue
			}
			f, err := parser.ParseFile(fset, filepath.Join(repo, dir, e.Name()), nil, 0)
			if err != nil {
				return nil, err
			}
			files = append(files, f)
		}
		pkgs[dir] = files
		return files, nil
	}
	sb.WriteString("(* shallow groups: (type-name prefix, decoder validates?, candidate field lists) *)\n")
	var groupItems []string
	var table []string // the same table in a line format the OCaml driver reads (the extracted constant is too large for ocamlopt)
	nCand := 0
	// small separate definitions (one per field name, per layout, per group): a single large literal makes the
	// extracted OCaml constant too deep for ocamlopt
	defCand := func(comment string, items []string) string {
		nCand++
		{
			// "cand name:omit name:omit ..." from the rendered items' comment (names in order)
			names := strings.Split(comment[strings.LastIndex(comment, ": ")+2:], ", ")
			var fs []string
			for j, nm := range names {
				o := "0"
				if strings.HasSuffix(items[j], "true)") {
					o = "1"
				}
				fs = append(fs, nm+":"+o)
			}
			table = append(table, "cand "+strings.Join(fs, " "))
		}
		var names []string
		for j, it := range items {
			nm := fmt.Sprintf("dtoc_%d_f%d", nCand, j)
			fmt.Fprintf(&sb, "Definition %s : list N * bool := %s.\n", nm, it)
			names = append(names, nm)
		}
		fmt.Fprintf(&sb, "Definition dtoc_%d : list (list N * bool) := [ %s ]. (* %s *)\n", nCand, strings.Join(names, "; "), comment)
		return fmt.Sprintf("dtoc_%d", nCand)
	}
	for _, g := range serdeGroupList {
		gs := "0"
		if g.strict {
			gs = "1"
		}
		table = append(table, "group "+g.name+" "+gs)
		var cands []string
		for _, rc := range g.recvs {
			files, err := loadDir(rc[0])
			if err != nil {
				return "", nil, err
			}
			spec, st, err := dtoOf(fset, files, rc[1])
			if err != nil {
				return "", nil, fmt.Errorf("group %s: %s: %v", g.name, rc[0], err)
			}
			hashes["group/"+g.name+"/"+rc[1]] = hashText(src(fset, spec))
			items, comment, err := dtoWireFields(fset, rc[0]+"."+rc[1], st)
			if err != nil {
				return "", nil, err
			}
			cands = append(cands, defCand(fmt.Sprintf("%s.%s: %s", rc[0], rc[1], strings.Join(comment, ", ")), items))
		}
		for _, file := range g.files {
			f, err := parser.ParseFile(fset, filepath.Join(repo, file), nil, 0)
			if err != nil {
				return "", nil, fmt.Errorf("group %s: %v", g.name, err)
			}
			n := 0
			for _, decl := range f.Decls {
				gd, ok := decl.(*ast.GenDecl)
				if !ok {
					continue
				}
				for _, s := range gd.Specs {
					ts, ok := s.(*ast.TypeSpec)
					if !ok {
						continue
					}
					st, ok := ts.Type.(*ast.StructType)
					if !ok {
						continue
					}
					items, comment, err := dtoWireFields(fset, file+"."+ts.Name.Name, st)
					if err != nil {
						return "", nil, err
					}
					if len(items) == 0 {
						continue
					}
					n++
					hashes["group/"+g.name+"/"+ts.Name.Name] = hashText(src(fset, ts))
					cands = append(cands, defCand(fmt.Sprintf("%s %s: %s", file, ts.Name.Name, strings.Join(comment, ", ")), items))
				}
			}
			if n == 0 {
				return "", nil, fmt.Errorf("group %s: no struct with exported fields in %s", g.name, file)
			}
		}
		b := "false"
		if g.strict {
			b = "true"
		}
		gi := len(groupItems)
		fmt.Fprintf(&sb, "Definition dtog_name_%d : list N := %s. (* %s *)\n", gi, coqBytesOfString(g.name), g.name)
		fmt.Fprintf(&sb, "Definition dtog_%d : list N * (bool * list (list (list N * bool))) := (dtog_name_%d, (%s, [ %s ])).\n\n", gi, gi, b, strings.Join(cands, "; "))
		groupItems = append(groupItems, fmt.Sprintf("dtog_%d", gi))
	}
	fmt.Fprintf(&sb, "Definition dto_groups : list (list N * (bool * list (list (list N * bool)))) :=\n  [ %s ].\n", strings.Join(groupItems, "; "))
	sb.WriteString("\n(*TABLE\n" + strings.Join(table, "\n") + "\nTABLE*)\n")
	return sb.String(), hashes, nil
}
