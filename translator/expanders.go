package main

// genExpanders: T-frame for the RFC 9380 message expanders
//
//	pkg/base/curves/impl/rfc9380/expanders/xmd.go   (*Xmd).ExpandMessage, i2osp
//	pkg/base/curves/impl/rfc9380/expanders/xof.go   (*Xof).ExpandMessage
//
// Every byte string that is fed to the hash / XOF (the oversize-DST input, msg_prime, the b_1 and b_i
// inputs, DST_prime) and every guard (the oversize threshold, ell, the abort condition, the loop
// bounds, the output truncation) is re-read from the current source and rendered as Gallina over
// coq/base/Bytes.v into coq/gen/Expanders.v.  The hash chaining itself (which digest feeds which
// input) is the hand-written skeleton of coq/model/H2c.v over these generated pieces and is tied by
// the C19 correspondence.
//
// Accepted statement forms (anything else is an error naming the statement):
//
//	h := e.HashFunc() | h := e.XofHash                 the hash object
//	n := h.BlockSize() | n := uint(h.Size())           environment numbers (s_in_bytes, b_in_bytes)
//	if BOOL { h.Reset(); h.Write(BYTES); dst = h.Sum(nil) }                      oversize DST (xmd)
//	if BOOL { h.Reset(); _,_ = h.Write(BYTES); dst = make([]byte, NUM); _,_ = io.ReadFull(h, dst) }   (xof)
//	n := NUM                                            number local
//	if BOOL { panic(..) }                               abort guard
//	x := BYTES                                          byte-string local
//	b := make([][]byte, ell+1)                          the block table
//	h.Reset(); [_,_ =] h.Write(BYTES); b[K] = h.Sum(nil)     one hash call (K = 0, 1 or the loop variable)
//	for i := uint(A); i <= ell; i++ { x := make([]byte, h.Size()); subtle.XORBytes(x, b[0], b[i-1]); <hash call b[i]> }
//	uniformBytes := slices.Concat(b[1:]...)             output = blocks from index 1
//	uniformBytes := make([]byte, lenInBytes); _,_ = io.ReadFull(h, uniformBytes)   (xof)
//	return uniformBytes[:lenInBytes]
//
// BYTES: identifier | slices.Concat(BYTES,...) | append(BYTES, BYTES...) | i2osp(NUM, NUM) | []byte("literal") | b[0] | b[i-1]
// NUM:   literal | identifier | len(x) | uint64(NUM) | uint(NUM) | e.K | NUM (+|-|*|/) NUM
// BOOL:  NUM (>|>=|<|<=|==) NUM | BOOL || BOOL | BOOL && BOOL
//
// uint/uint64 conversions are the identity (64-bit platform); N subtraction is truncated where Go's
// wraps: the only subtraction accepted is `x + y - 1` style with the translator not checking y >= 1.

import (
	"fmt"
	"go/ast"
	"go/parser"
	"go/token"
	"path/filepath"
	"strconv"
	"strings"
)

type expLocal struct {
	name string
	expr string
	kind string // "bytes" | "N"
}

type expTr struct {
	fset     *token.FileSet
	prefix   string // "Xmd_" | "Xof_"
	recv     string // receiver name (e)
	hashVar  string
	envNums  []string          // numbers obtained from the hash object / receiver, in order of appearance
	params   []string          // function parameters in order
	ptype    map[string]string // name -> "bytes" | "N"
	locals   []expLocal
	blockTab string // name of the [][]byte table
	loopVar  string
	inLoop   bool
	extra    []string // extra parameters visible (b_0, b_prev, i)
	out      strings.Builder
	// pending hash call
	pendingReset bool
	pendingWrite []string
	emitted      map[string]bool
}

func (t *expTr) errf(n ast.Node, format string, a ...any) error {
	return fmt.Errorf("%s%s: %s: `%s`", t.prefix, t.fset.Position(n.Pos()), fmt.Sprintf(format, a...), src(t.fset, n))
}

func (t *expTr) known(name string) (string, bool) {
	if k, ok := t.ptype[name]; ok {
		return k, true
	}
	for _, l := range t.locals {
		if l.name == name {
			return l.kind, true
		}
	}
	return "", false
}

func (t *expTr) num(e ast.Expr) (string, error) {
	switch x := e.(type) {
	case *ast.ParenExpr:
		s, err := t.num(x.X)
		if err != nil {
			return "", err
		}
		return "(" + s + ")", nil
	case *ast.BasicLit:
		if x.Kind != token.INT {
			return "", t.errf(e, "unsupported literal")
		}
		v, err := strconv.ParseUint(x.Value, 0, 64)
		if err != nil {
			return "", t.errf(e, "unsupported integer literal")
		}
		return strconv.FormatUint(v, 10), nil
	case *ast.Ident:
		if k, ok := t.known(x.Name); ok && k == "N" {
			return x.Name, nil
		}
		return "", t.errf(e, "unknown number")
	case *ast.SelectorExpr:
		// e.K
		if id, ok := x.X.(*ast.Ident); ok && id.Name == t.recv {
			name := x.Sel.Name
			if _, ok := t.known(name); !ok {
				t.envNums = append(t.envNums, name)
				t.ptype[name] = "N"
			}
			return name, nil
		}
		return "", t.errf(e, "unsupported selector")
	case *ast.CallExpr:
		if id, ok := x.Fun.(*ast.Ident); ok && len(x.Args) == 1 {
			switch id.Name {
			case "uint64", "uint":
				return t.num(x.Args[0])
			case "len":
				if v, ok := x.Args[0].(*ast.Ident); ok {
					if k, ok := t.known(v.Name); ok && k == "bytes" {
						return "len " + v.Name, nil
					}
				}
				return "", t.errf(e, "len of an unknown byte string")
			}
		}
		return "", t.errf(e, "unsupported call in a number")
	case *ast.BinaryExpr:
		l, err := t.num(x.X)
		if err != nil {
			return "", err
		}
		r, err := t.num(x.Y)
		if err != nil {
			return "", err
		}
		switch x.Op {
		case token.ADD, token.SUB, token.MUL, token.QUO:
			return fmt.Sprintf("(%s %s %s)", l, x.Op.String(), r), nil
		}
		return "", t.errf(e, "unsupported arithmetic operator")
	}
	return "", t.errf(e, "unsupported number expression")
}

func (t *expTr) boolean(e ast.Expr) (string, error) {
	switch x := e.(type) {
	case *ast.ParenExpr:
		return t.boolean(x.X)
	case *ast.BinaryExpr:
		if x.Op == token.LOR || x.Op == token.LAND {
			l, err := t.boolean(x.X)
			if err != nil {
				return "", err
			}
			r, err := t.boolean(x.Y)
			if err != nil {
				return "", err
			}
			op := "||"
			if x.Op == token.LAND {
				op = "&&"
			}
			return fmt.Sprintf("(%s %s %s)", l, op, r), nil
		}
		l, err := t.num(x.X)
		if err != nil {
			return "", err
		}
		r, err := t.num(x.Y)
		if err != nil {
			return "", err
		}
		switch x.Op {
		case token.GTR:
			return fmt.Sprintf("(%s <? %s)", r, l), nil
		case token.GEQ:
			return fmt.Sprintf("(%s <=? %s)", r, l), nil
		case token.LSS:
			return fmt.Sprintf("(%s <? %s)", l, r), nil
		case token.LEQ:
			return fmt.Sprintf("(%s <=? %s)", l, r), nil
		case token.EQL:
			return fmt.Sprintf("(%s =? %s)", l, r), nil
		}
		return "", t.errf(e, "unsupported comparison")
	}
	return "", t.errf(e, "unsupported condition")
}

func isByteSliceType(e ast.Expr) bool {
	at, ok := e.(*ast.ArrayType)
	if !ok || at.Len != nil {
		return false
	}
	id, ok := at.Elt.(*ast.Ident)
	return ok && id.Name == "byte"
}

func (t *expTr) bytes(e ast.Expr) (string, error) {
	switch x := e.(type) {
	case *ast.Ident:
		if k, ok := t.known(x.Name); ok && k == "bytes" {
			return x.Name, nil
		}
		return "", t.errf(e, "unknown byte string")
	case *ast.IndexExpr:
		// b[0] | b[i-1]
		if id, ok := x.X.(*ast.Ident); ok && id.Name == t.blockTab && t.blockTab != "" {
			if lit, ok := x.Index.(*ast.BasicLit); ok && lit.Value == "0" {
				if contains(t.extra, "b_0") {
					return "b_0", nil
				}
				return "", t.errf(e, "b[0] is read before it is written")
			}
			if be, ok := x.Index.(*ast.BinaryExpr); ok && be.Op == token.SUB && t.inLoop {
				l, ok1 := be.X.(*ast.Ident)
				r, ok2 := be.Y.(*ast.BasicLit)
				if ok1 && ok2 && l.Name == t.loopVar && r.Value == "1" {
					return "b_prev", nil
				}
			}
		}
		return "", t.errf(e, "unsupported index expression")
	case *ast.CallExpr:
		if isByteSliceType(x.Fun) && len(x.Args) == 1 {
			if lit, ok := x.Args[0].(*ast.BasicLit); ok && lit.Kind == token.STRING {
				s, err := strconv.Unquote(lit.Value)
				if err != nil {
					return "", t.errf(e, "bad string literal")
				}
				return coqBytesOfString(s), nil
			}
			return "", t.errf(e, "unsupported []byte conversion")
		}
		if isSel(x.Fun, "slices", "Concat") && x.Ellipsis == token.NoPos {
			var parts []string
			for _, a := range x.Args {
				p, err := t.bytes(a)
				if err != nil {
					return "", err
				}
				parts = append(parts, p)
			}
			if len(parts) == 0 {
				return "[]", nil
			}
			return "(" + strings.Join(parts, " ++ ") + ")", nil
		}
		if id, ok := x.Fun.(*ast.Ident); ok {
			switch id.Name {
			case "append":
				if len(x.Args) == 2 && x.Ellipsis != token.NoPos {
					a, err := t.bytes(x.Args[0])
					if err != nil {
						return "", err
					}
					b, err := t.bytes(x.Args[1])
					if err != nil {
						return "", err
					}
					return "(" + a + " ++ " + b + ")", nil
				}
			case "i2osp":
				if len(x.Args) == 2 {
					n, err := t.num(x.Args[0])
					if err != nil {
						return "", err
					}
					k, err := t.num(x.Args[1])
					if err != nil {
						return "", err
					}
					return fmt.Sprintf("i2osp (%s) (N.to_nat (%s))", n, k), nil
				}
			}
		}
		return "", t.errf(e, "unsupported call in a byte string")
	}
	return "", t.errf(e, "unsupported byte-string expression")
}

// signature of every generated definition: environment numbers, function parameters, extras
func (t *expTr) signature(extra []string) string {
	var ps []string
	for _, n := range t.envNums {
		ps = append(ps, fmt.Sprintf("(%s : N)", n))
	}
	for _, p := range t.params {
		ps = append(ps, fmt.Sprintf("(%s : %s)", p, t.ptype[p]))
	}
	for _, x := range extra {
		ty := "bytes"
		if x == t.loopVar && x != "" {
			ty = "N"
		}
		ps = append(ps, fmt.Sprintf("(%s : %s)", x, ty))
	}
	return strings.Join(ps, " ")
}

func (t *expTr) lets() string {
	var b strings.Builder
	for _, l := range t.locals {
		fmt.Fprintf(&b, "  let %s := %s in\n", l.name, l.expr)
	}
	return b.String()
}

func (t *expTr) define(name, ty, body string) error {
	if t.emitted[name] {
		return fmt.Errorf("%s%s would be defined twice (unexpected second occurrence of the statement form)", t.prefix, name)
	}
	t.emitted[name] = true
	fmt.Fprintf(&t.out, "Definition %s%s %s : %s :=\n%s  %s.\n\n", t.prefix, name, t.signature(t.extra), ty, t.lets(), body)
	return nil
}

// callOn recognises `[_, _ =] RECV.M(args)`; returns method and args.
func callOn(st ast.Stmt, recv string) (string, []ast.Expr, bool) {
	var c *ast.CallExpr
	switch x := st.(type) {
	case *ast.ExprStmt:
		c, _ = x.X.(*ast.CallExpr)
	case *ast.AssignStmt:
		if len(x.Rhs) == 1 && x.Tok == token.ASSIGN {
			blank := true
			for _, l := range x.Lhs {
				if id, ok := l.(*ast.Ident); !ok || id.Name != "_" {
					blank = false
				}
			}
			if blank {
				c, _ = x.Rhs[0].(*ast.CallExpr)
			}
		}
	}
	if c == nil {
		return "", nil, false
	}
	sel, ok := c.Fun.(*ast.SelectorExpr)
	if !ok {
		return "", nil, false
	}
	id, ok := sel.X.(*ast.Ident)
	if !ok || id.Name != recv {
		return "", nil, false
	}
	return sel.Sel.Name, c.Args, true
}

// isSumNil: h.Sum(nil)
func (t *expTr) isSumNil(e ast.Expr) bool {
	c, ok := e.(*ast.CallExpr)
	if !ok || len(c.Args) != 1 {
		return false
	}
	sel, ok := c.Fun.(*ast.SelectorExpr)
	if !ok || sel.Sel.Name != "Sum" {
		return false
	}
	id, ok := sel.X.(*ast.Ident)
	a, ok2 := c.Args[0].(*ast.Ident)
	return ok && ok2 && id.Name == t.hashVar && a.Name == "nil"
}

// readFull: _, _ = io.ReadFull(h, x) -> x
func (t *expTr) readFull(st ast.Stmt) (string, bool) {
	as, ok := st.(*ast.AssignStmt)
	if !ok || len(as.Rhs) != 1 || len(as.Lhs) != 2 {
		return "", false
	}
	c, ok := as.Rhs[0].(*ast.CallExpr)
	if !ok || !isSel(c.Fun, "io", "ReadFull") || len(c.Args) != 2 {
		return "", false
	}
	h, ok1 := c.Args[0].(*ast.Ident)
	x, ok2 := c.Args[1].(*ast.Ident)
	if !ok1 || !ok2 || h.Name != t.hashVar {
		return "", false
	}
	return x.Name, true
}

// makeBytes: make([]byte, NUM) -> NUM
func (t *expTr) makeBytes(e ast.Expr) (ast.Expr, bool) {
	c, ok := e.(*ast.CallExpr)
	if !ok || len(c.Args) != 2 {
		return nil, false
	}
	id, ok := c.Fun.(*ast.Ident)
	if !ok || id.Name != "make" || !isByteSliceType(c.Args[0]) {
		return nil, false
	}
	return c.Args[1], true
}

func (t *expTr) hashStmt(st ast.Stmt) (handled bool, err error) {
	if m, args, ok := callOn(st, t.hashVar); ok && t.hashVar != "" {
		switch m {
		case "Reset":
			if len(args) != 0 || t.pendingReset {
				return true, t.errf(st, "unexpected Reset")
			}
			t.pendingReset = true
			t.pendingWrite = nil
			return true, nil
		case "Write":
			if len(args) != 1 || !t.pendingReset {
				return true, t.errf(st, "Write without a preceding Reset (the hash input would not start fresh)")
			}
			b, err := t.bytes(args[0])
			if err != nil {
				return true, err
			}
			t.pendingWrite = append(t.pendingWrite, b)
			return true, nil
		}
		return true, t.errf(st, "unsupported call on the hash object")
	}
	return false, nil
}

func (t *expTr) takeInput(n ast.Node) (string, error) {
	if !t.pendingReset || len(t.pendingWrite) == 0 {
		return "", t.errf(n, "digest taken without Reset+Write")
	}
	in := strings.Join(t.pendingWrite, " ++ ")
	t.pendingReset = false
	t.pendingWrite = nil
	return in, nil
}

func (t *expTr) block(list []ast.Stmt) error {
	for idx := 0; idx < len(list); idx++ {
		st := list[idx]
		if handled, err := t.hashStmt(st); handled {
			if err != nil {
				return err
			}
			continue
		}
		switch x := st.(type) {
		case *ast.AssignStmt:
			if len(x.Lhs) != 1 || len(x.Rhs) != 1 {
				// _, _ = io.ReadFull(h, uniformBytes)  (xof final read)
				if name, ok := t.readFull(st); ok {
					in, err := t.takeInput(st)
					if err != nil {
						return err
					}
					var ln string
					for _, l := range t.locals {
						if l.name == name && l.kind == "outbuf" {
							ln = l.expr
						}
					}
					if ln == "" {
						return t.errf(st, "ReadFull into an unknown buffer")
					}
					// drop the buffer pseudo-local before emitting
					var keep []expLocal
					for _, l := range t.locals {
						if l.kind != "outbuf" {
							keep = append(keep, l)
						}
					}
					t.locals = keep
					if err := t.define("input", "bytes", in); err != nil {
						return err
					}
					if err := t.define("out_len", "N", ln); err != nil {
						return err
					}
					t.ptype[name] = "out"
					continue
				}
				return t.errf(st, "unsupported assignment")
			}
			// b[K] = h.Sum(nil)
			if ix, ok := x.Lhs[0].(*ast.IndexExpr); ok && x.Tok == token.ASSIGN {
				id, ok := ix.X.(*ast.Ident)
				if !ok || id.Name != t.blockTab || t.blockTab == "" || !t.isSumNil(x.Rhs[0]) {
					return t.errf(st, "unsupported indexed assignment")
				}
				in, err := t.takeInput(st)
				if err != nil {
					return err
				}
				switch k := ix.Index.(type) {
				case *ast.BasicLit:
					switch k.Value {
					case "0":
						if err := t.define("b0_input", "bytes", in); err != nil {
							return err
						}
						t.extra = append(t.extra, "b_0")
					case "1":
						if !contains(t.extra, "b_0") {
							return t.errf(st, "b[1] before b[0]")
						}
						if err := t.define("b1_input", "bytes", in); err != nil {
							return err
						}
					default:
						return t.errf(st, "unsupported block index")
					}
				case *ast.Ident:
					if !t.inLoop || k.Name != t.loopVar {
						return t.errf(st, "unsupported block index")
					}
					if err := t.define("bi_input", "bytes", in); err != nil {
						return err
					}
				default:
					return t.errf(st, "unsupported block index")
				}
				continue
			}
			lhs, ok := x.Lhs[0].(*ast.Ident)
			if !ok {
				return t.errf(st, "unsupported assignment target")
			}
			if x.Tok != token.DEFINE {
				return t.errf(st, "unsupported re-assignment")
			}
			if _, dup := t.known(lhs.Name); dup {
				return t.errf(st, "shadowing of %s", lhs.Name)
			}
			rhs := x.Rhs[0]
			// h := e.HashFunc() | h := e.XofHash
			if t.hashVar == "" {
				if c, ok := rhs.(*ast.CallExpr); ok && len(c.Args) == 0 && isSel(c.Fun, t.recv, "HashFunc") {
					t.hashVar = lhs.Name
					continue
				}
				if isSel(rhs, t.recv, "XofHash") {
					t.hashVar = lhs.Name
					continue
				}
			}
			// n := h.BlockSize() | n := uint(h.Size())
			if name, ok := t.hashNumber(rhs); ok {
				_ = name
				t.envNums = append(t.envNums, lhs.Name)
				t.ptype[lhs.Name] = "N"
				continue
			}
			// b := make([][]byte, ell+1)
			if c, ok := rhs.(*ast.CallExpr); ok && len(c.Args) == 2 {
				if id, ok := c.Fun.(*ast.Ident); ok && id.Name == "make" && src(t.fset, c.Args[0]) == "[][]byte" {
					n, err := t.num(c.Args[1])
					if err != nil {
						return err
					}
					if t.blockTab != "" {
						return t.errf(st, "second block table")
					}
					t.blockTab = lhs.Name
					if err := t.define("blocks", "N", n); err != nil {
						return err
					}
					continue
				}
			}
			// x := make([]byte, h.Size()); subtle.XORBytes(x, b[0], b[i-1])     (loop body)
			if sz, ok := t.makeBytes(rhs); ok {
				if _, isH := t.hashNumber(sz); isH && t.inLoop && idx+1 < len(list) {
					if es, ok := list[idx+1].(*ast.ExprStmt); ok {
						if c, ok := es.X.(*ast.CallExpr); ok && isSel(c.Fun, "subtle", "XORBytes") && len(c.Args) == 3 {
							if d, ok := c.Args[0].(*ast.Ident); ok && d.Name == lhs.Name {
								a, err := t.bytes(c.Args[1])
								if err != nil {
									return err
								}
								b, err := t.bytes(c.Args[2])
								if err != nil {
									return err
								}
								t.locals = append(t.locals, expLocal{lhs.Name, fmt.Sprintf("xor_bytes %s %s", a, b), "bytes"})
								idx++
								continue
							}
						}
					}
					return t.errf(st, "buffer of digest size that is not filled by subtle.XORBytes")
				}
				// uniformBytes := make([]byte, lenInBytes)   (xof output buffer)
				n, err := t.num(sz)
				if err != nil {
					return err
				}
				t.locals = append(t.locals, expLocal{lhs.Name, n, "outbuf"})
				continue
			}
			// uniformBytes := slices.Concat(b[1:]...)
			if c, ok := rhs.(*ast.CallExpr); ok && isSel(c.Fun, "slices", "Concat") && c.Ellipsis != token.NoPos && len(c.Args) == 1 {
				if se, ok := c.Args[0].(*ast.SliceExpr); ok && se.High == nil && se.Max == nil && se.Low != nil {
					if id, ok := se.X.(*ast.Ident); ok && id.Name == t.blockTab {
						lo, err := t.num(se.Low)
						if err != nil {
							return err
						}
						saved := t.extra
						t.extra = nil
						err = t.define("out_from_block", "N", lo)
						t.extra = saved
						if err != nil {
							return err
						}
						t.ptype[lhs.Name] = "out"
						continue
					}
				}
				return t.errf(st, "unsupported concatenation of blocks")
			}
			// number or byte-string local
			if n, err := t.num(rhs); err == nil {
				t.locals = append(t.locals, expLocal{lhs.Name, n, "N"})
				continue
			}
			b, err := t.bytes(rhs)
			if err != nil {
				return err
			}
			t.locals = append(t.locals, expLocal{lhs.Name, b, "bytes"})
		case *ast.IfStmt:
			if x.Init != nil || x.Else != nil {
				return t.errf(st, "unsupported if form")
			}
			cond, err := t.boolean(x.Cond)
			if err != nil {
				return err
			}
			// abort guard
			if len(x.Body.List) == 1 {
				if es, ok := x.Body.List[0].(*ast.ExprStmt); ok {
					if c, ok := es.X.(*ast.CallExpr); ok {
						if id, ok := c.Fun.(*ast.Ident); ok && id.Name == "panic" {
							if err := t.define("abort", "bool", cond); err != nil {
								return err
							}
							continue
						}
					}
				}
			}
			// oversize DST
			if err := t.oversize(x, cond); err != nil {
				return err
			}
		case *ast.ForStmt:
			if err := t.loop(x); err != nil {
				return err
			}
		case *ast.ReturnStmt:
			if len(x.Results) != 1 {
				return t.errf(st, "unsupported return")
			}
			se, ok := x.Results[0].(*ast.SliceExpr)
			if !ok || se.Low != nil || se.High == nil || se.Max != nil {
				return t.errf(st, "unsupported return expression")
			}
			id, ok := se.X.(*ast.Ident)
			if !ok || t.ptype[id.Name] != "out" {
				return t.errf(st, "return of something that is not the expander output")
			}
			n, err := t.num(se.High)
			if err != nil {
				return err
			}
			saved := t.extra
			t.extra = nil
			err = t.define("out_truncate", "N", n)
			t.extra = saved
			if err != nil {
				return err
			}
		default:
			return t.errf(st, "unsupported statement")
		}
	}
	return nil
}

// hashNumber: h.BlockSize() | uint(h.Size()) | h.Size()
func (t *expTr) hashNumber(e ast.Expr) (string, bool) {
	if c, ok := e.(*ast.CallExpr); ok {
		if id, ok := c.Fun.(*ast.Ident); ok && (id.Name == "uint" || id.Name == "uint64") && len(c.Args) == 1 {
			return t.hashNumber(c.Args[0])
		}
		if sel, ok := c.Fun.(*ast.SelectorExpr); ok && len(c.Args) == 0 {
			if id, ok := sel.X.(*ast.Ident); ok && id.Name == t.hashVar && t.hashVar != "" && (sel.Sel.Name == "BlockSize" || sel.Sel.Name == "Size") {
				return sel.Sel.Name, true
			}
		}
	}
	return "", false
}

func (t *expTr) oversize(x *ast.IfStmt, cond string) error {
	if len(t.locals) != 0 || t.pendingReset {
		return t.errf(x, "the oversize-DST rule must come before every other computation")
	}
	body := x.Body.List
	// Reset; Write(E); then either dst = h.Sum(nil)  or  dst = make([]byte, NUM); ReadFull(h, dst)
	if len(body) < 3 {
		return t.errf(x, "unsupported conditional")
	}
	for _, st := range body[:2] {
		handled, err := t.hashStmt(st)
		if err != nil {
			return err
		}
		if !handled {
			return t.errf(st, "expected Reset/Write")
		}
	}
	in, err := t.takeInput(x)
	if err != nil {
		return err
	}
	as, ok := body[2].(*ast.AssignStmt)
	if !ok || as.Tok != token.ASSIGN || len(as.Lhs) != 1 || len(as.Rhs) != 1 {
		return t.errf(body[2], "expected the re-assignment of the DST")
	}
	id, ok := as.Lhs[0].(*ast.Ident)
	if !ok || id.Name != t.params[0] || t.ptype[id.Name] != "bytes" {
		return t.errf(body[2], "expected the re-assignment of the DST parameter")
	}
	if err := t.define("oversize", "bool", cond); err != nil {
		return err
	}
	if err := t.define("oversize_input", "bytes", in); err != nil {
		return err
	}
	switch {
	case len(body) == 3 && t.isSumNil(as.Rhs[0]):
		return nil
	case len(body) == 4:
		sz, ok := t.makeBytes(as.Rhs[0])
		name, ok2 := t.readFull(body[3])
		if ok && ok2 && name == id.Name {
			n, err := t.num(sz)
			if err != nil {
				return err
			}
			return t.define("oversize_len", "N", n)
		}
	}
	return t.errf(x, "unsupported oversize-DST replacement")
}

func (t *expTr) loop(x *ast.ForStmt) error {
	if t.inLoop || t.loopVar != "" {
		return t.errf(x, "unexpected second/nested loop")
	}
	init, ok := x.Init.(*ast.AssignStmt)
	if !ok || init.Tok != token.DEFINE || len(init.Lhs) != 1 || len(init.Rhs) != 1 {
		return t.errf(x, "unsupported loop initialisation")
	}
	iv, ok := init.Lhs[0].(*ast.Ident)
	if !ok {
		return t.errf(x, "unsupported loop variable")
	}
	from, err := t.num(init.Rhs[0])
	if err != nil {
		return err
	}
	post, ok := x.Post.(*ast.IncDecStmt)
	if !ok || post.Tok != token.INC || src(t.fset, post.X) != iv.Name {
		return t.errf(x, "unsupported loop step")
	}
	if !contains(t.extra, "b_0") {
		return t.errf(x, "loop before b[0]")
	}
	saved := t.extra
	t.extra = nil
	if err := t.define("loop_from", "N", from); err != nil {
		return err
	}
	t.loopVar = iv.Name
	t.ptype[iv.Name] = "N"
	t.extra = []string{iv.Name}
	cond, err := t.boolean(x.Cond)
	if err != nil {
		return err
	}
	if err := t.define("loop_cond", "bool", cond); err != nil {
		return err
	}
	t.extra = append(append([]string{}, saved...), "b_prev", iv.Name)
	t.inLoop = true
	nLocals := len(t.locals)
	if err := t.block(x.Body.List); err != nil {
		return err
	}
	t.inLoop = false
	t.locals = t.locals[:nLocals]
	delete(t.ptype, iv.Name)
	t.extra = saved
	if !t.emitted["bi_input"] {
		return t.errf(x, "loop without a hash call into b[%s]", iv.Name)
	}
	return nil
}

func translateExpander(fset *token.FileSet, f *ast.File, typ, prefix string, need []string) (string, string, error) {
	fd := findMethod(f, typ, "ExpandMessage")
	if fd == nil {
		return "", "", fmt.Errorf("%s.ExpandMessage not found", typ)
	}
	if fd.Recv == nil || len(fd.Recv.List) != 1 || len(fd.Recv.List[0].Names) != 1 {
		return "", "", fmt.Errorf("%s.ExpandMessage: unnamed receiver", typ)
	}
	t := &expTr{fset: fset, prefix: prefix, recv: fd.Recv.List[0].Names[0].Name, ptype: map[string]string{}, emitted: map[string]bool{}}
	for _, p := range fd.Type.Params.List {
		var ty string
		switch {
		case isByteSliceType(p.Type):
			ty = "bytes"
		case src(fset, p.Type) == "uint" || src(fset, p.Type) == "uint64":
			ty = "N"
		default:
			return "", "", t.errf(p, "unsupported parameter type")
		}
		for _, n := range p.Names {
			t.params = append(t.params, n.Name)
			t.ptype[n.Name] = ty
		}
	}
	if len(t.params) != 3 || t.ptype[t.params[0]] != "bytes" || t.ptype[t.params[1]] != "bytes" || t.ptype[t.params[2]] != "N" {
		return "", "", t.errf(fd.Type, "expected (dst, msg []byte, lenInBytes uint)")
	}
	// environment numbers must be known before the first definition is emitted so that every
	// definition has the same signature: pre-scan for them.
	ast.Inspect(fd.Body, func(n ast.Node) bool {
		as, ok := n.(*ast.AssignStmt)
		if ok && as.Tok == token.DEFINE && len(as.Lhs) == 1 && len(as.Rhs) == 1 {
			if c, ok := as.Rhs[0].(*ast.CallExpr); ok && len(c.Args) == 0 && isSel(c.Fun, t.recv, "HashFunc") {
				t.hashVar = as.Lhs[0].(*ast.Ident).Name
			}
			if isSel(as.Rhs[0], t.recv, "XofHash") {
				t.hashVar = as.Lhs[0].(*ast.Ident).Name
			}
		}
		if sel, ok := n.(*ast.SelectorExpr); ok {
			if id, ok := sel.X.(*ast.Ident); ok && id.Name == t.recv && sel.Sel.Name != "HashFunc" && sel.Sel.Name != "XofHash" {
				if _, known := t.ptype[sel.Sel.Name]; !known {
					t.envNums = append(t.envNums, sel.Sel.Name)
					t.ptype[sel.Sel.Name] = "N"
				}
			}
		}
		return true
	})
	if t.hashVar == "" {
		return "", "", fmt.Errorf("%s.ExpandMessage: hash object not found", typ)
	}
	hv := t.hashVar
	for _, st := range fd.Body.List {
		as, ok := st.(*ast.AssignStmt)
		if ok && as.Tok == token.DEFINE && len(as.Lhs) == 1 && len(as.Rhs) == 1 {
			if _, isNum := t.hashNumber(as.Rhs[0]); isNum {
				name := as.Lhs[0].(*ast.Ident).Name
				t.envNums = append(t.envNums, name)
				t.ptype[name] = "N"
			}
		}
	}
	t.hashVar = ""
	// the main pass must not append duplicates: wrap by removing the assignments' effect
	body := fd.Body.List
	var rest []ast.Stmt
	for _, st := range body {
		as, ok := st.(*ast.AssignStmt)
		if ok && as.Tok == token.DEFINE && len(as.Lhs) == 1 && len(as.Rhs) == 1 {
			t.hashVar = hv
			_, isNum := t.hashNumber(as.Rhs[0])
			t.hashVar = ""
			if isNum {
				continue
			}
		}
		rest = append(rest, st)
	}
	// the hash object definition must be the first statement
	if len(rest) == 0 {
		return "", "", fmt.Errorf("%s.ExpandMessage: empty body", typ)
	}
	if err := t.block(rest[:1]); err != nil {
		return "", "", err
	}
	if t.hashVar != hv {
		return "", "", t.errf(rest[0], "expected the hash object as first statement")
	}
	if err := t.block(rest[1:]); err != nil {
		return "", "", err
	}
	if t.pendingReset {
		return "", "", fmt.Errorf("%s.ExpandMessage: dangling Reset/Write", typ)
	}
	for _, n := range need {
		if !t.emitted[n] {
			return "", "", fmt.Errorf("%s.ExpandMessage: expected piece %s%s was not found in the source", typ, prefix, n)
		}
	}
	return t.out.String(), hashText(src(fset, fd)), nil
}

// i2osp must have exactly the recognised body (little-endian uint64, copied into a zeroed buffer of
// the requested width, reversed) = big-endian of fixed width of (in mod 256^length).
func translateI2osp(fset *token.FileSet, f *ast.File) (string, string, error) {
	fd := findMethod(f, "", "i2osp")
	if fd == nil {
		return "", "", fmt.Errorf("i2osp not found")
	}
	want := []string{
		"data := make([]byte, length)",
		"copy(data, binary.LittleEndian.AppendUint64(nil, in))",
		"slices.Reverse(data)",
		"return data",
	}
	if src(fset, fd.Type) != "func(in uint64, length uint) []byte" {
		return "", "", fmt.Errorf("i2osp: unexpected signature `%s`", src(fset, fd.Type))
	}
	if len(fd.Body.List) != len(want) {
		return "", "", fmt.Errorf("i2osp: unexpected body (%d statements)", len(fd.Body.List))
	}
	for i, st := range fd.Body.List {
		if got := src(fset, st); got != want[i] {
			return "", "", fmt.Errorf("i2osp: %s: unrecognised statement `%s` (expected `%s`)", fset.Position(st.Pos()), got, want[i])
		}
	}
	return "(* i2osp: zeroed buffer of [length] bytes, little-endian uint64 copied in, reversed\n" +
		"   = big-endian of width [length] of (in mod 256^length); in < 2^64 *)\n" +
		"Definition i2osp (n : N) (k : nat) : bytes := be_bytes k n.\n\n", hashText(src(fset, fd)), nil
}

func genExpanders(repo string) (string, map[string]string, error) {
	dir := filepath.Join(repo, "pkg/base/curves/impl/rfc9380/expanders")
	hashes := map[string]string{}
	var out strings.Builder
	out.WriteString("(* GENERATED by /verif/translator (expanders.go) from pkg/base/curves/impl/rfc9380/expanders/{xmd,xof}.go\n" +
		"   — do not edit.  One definition per hashed byte string / guard; every definition takes the\n" +
		"   environment numbers, then (dst msg lenInBytes) — dst being the DST after the oversize rule —\n" +
		"   then the digests it reads. *)\n")
	out.WriteString("From Coq Require Import List NArith Bool.\nImport ListNotations.\nRequire Import V.base.Bytes.\nLocal Open Scope N_scope.\n\n")
	out.WriteString("(* crypto/subtle.XORBytes on equally long operands *)\nFixpoint xor_bytes (a b : bytes) : bytes :=\n  match a, b with\n  | x :: a', y :: b' => N.lxor x y :: xor_bytes a' b'\n  | _, _ => []\n  end.\n\n")

	fset := token.NewFileSet()
	fx, err := parser.ParseFile(fset, filepath.Join(dir, "xmd.go"), nil, 0)
	if err != nil {
		return "", nil, err
	}
	def, h, err := translateI2osp(fset, fx)
	if err != nil {
		return "", nil, err
	}
	out.WriteString(def)
	hashes["i2osp"] = h
	def, h, err = translateExpander(fset, fx, "Xmd", "Xmd_",
		[]string{"oversize", "oversize_input", "abort", "blocks", "b0_input", "b1_input", "loop_from", "loop_cond", "bi_input", "out_from_block", "out_truncate"})
	if err != nil {
		return "", nil, err
	}
	out.WriteString("(* ---- Xmd.ExpandMessage ---- *)\n" + def)
	hashes["Xmd.ExpandMessage"] = h

	ff, err := parser.ParseFile(fset, filepath.Join(dir, "xof.go"), nil, 0)
	if err != nil {
		return "", nil, err
	}
	def, h, err = translateExpander(fset, ff, "Xof", "Xof_",
		[]string{"oversize", "oversize_input", "oversize_len", "abort", "input", "out_len", "out_truncate"})
	if err != nil {
		return "", nil, err
	}
	out.WriteString("(* ---- Xof.ExpandMessage ---- *)\n" + def)
	hashes["Xof.ExpandMessage"] = h
	return out.String(), hashes, nil
}

func init() { register("Expanders", genExpanders) }
