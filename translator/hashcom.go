package main

// Hashcom: T-frame for property C18 — what pkg/commitments/hashcom feeds to its hash.
//
// From hashcom.go: the constants KeySize and DigestSize and the hash constructor bound to
// hmacFunc.  From key.go: the body of (*CommitmentKey).CommitWithWitness, accepted only in
// the form
//
//	[if k == nil { return … }]
//	h, err := hmacFunc(<key expr>)          key expr: k[:]  |  nil
//	[if err != nil { return … }]
//	h.Write(<arg>) …                        arg: message | witness[:] | k[:]
//	return Commitment(h.Sum(nil)), nil
//
// and rendered as the byte string written to the hash and the hash key.  Any other
// statement or argument form is an error (broken tie).

import (
	"fmt"
	"go/ast"
	"go/parser"
	"go/token"
	"path/filepath"
	"strings"
)

func init() { register("Hashcom", genHashcom) }

func hcSliceOf(e ast.Expr, name string) bool { // name[:]
	s, ok := e.(*ast.SliceExpr)
	if !ok || s.Low != nil || s.High != nil || s.Max != nil {
		return false
	}
	id, ok := s.X.(*ast.Ident)
	return ok && id.Name == name
}

func hcIsNilGuard(fset *token.FileSet, st ast.Stmt) bool {
	ifs, ok := st.(*ast.IfStmt)
	if !ok || ifs.Init != nil || ifs.Else != nil || len(ifs.Body.List) != 1 {
		return false
	}
	if _, ok := ifs.Body.List[0].(*ast.ReturnStmt); !ok {
		return false
	}
	c := src(fset, ifs.Cond)
	return c == "k == nil" || c == "err != nil"
}

func genHashcom(repo string) (string, map[string]string, error) {
	fset := token.NewFileSet()
	dir := filepath.Join(repo, "pkg", "commitments", "hashcom")
	hf, err := parser.ParseFile(fset, filepath.Join(dir, "hashcom.go"), nil, 0)
	if err != nil {
		return "", nil, err
	}
	kf, err := parser.ParseFile(fset, filepath.Join(dir, "key.go"), nil, 0)
	if err != nil {
		return "", nil, err
	}
	// constants: literal integers only
	intConst := func(name string) (string, error) {
		for _, d := range hf.Decls {
			gd, ok := d.(*ast.GenDecl)
			if !ok || gd.Tok != token.CONST {
				continue
			}
			for _, s := range gd.Specs {
				vs := s.(*ast.ValueSpec)
				for i, n := range vs.Names {
					if n.Name == name && i < len(vs.Values) {
						bl, ok := vs.Values[i].(*ast.BasicLit)
						if !ok || bl.Kind != token.INT {
							return "", fmt.Errorf("%s: %s is not an integer literal: `%s`", fset.Position(vs.Values[i].Pos()), name, src(fset, vs.Values[i]))
						}
						return bl.Value, nil
					}
				}
			}
		}
		return "", fmt.Errorf("constant %s not found in hashcom.go", name)
	}
	keySize, err := intConst("KeySize")
	if err != nil {
		return "", nil, err
	}
	digestSize, err := intConst("DigestSize")
	if err != nil {
		return "", nil, err
	}
	// hmacFunc = blake2b.New256
	hashName := ""
	for _, d := range hf.Decls {
		gd, ok := d.(*ast.GenDecl)
		if !ok || gd.Tok != token.VAR {
			continue
		}
		for _, s := range gd.Specs {
			vs := s.(*ast.ValueSpec)
			for i, n := range vs.Names {
				if n.Name == "hmacFunc" && i < len(vs.Values) {
					hashName = src(fset, vs.Values[i])
				}
			}
		}
	}
	if hashName != "blake2b.New256" {
		return "", nil, fmt.Errorf("hmacFunc is `%s`, the model and the correspondence hash are keyed BLAKE2b-256 (blake2b.New256)", hashName)
	}

	fd := findMethod(kf, "CommitmentKey", "CommitWithWitness")
	if fd == nil || fd.Body == nil {
		return "", nil, fmt.Errorf("(*CommitmentKey).CommitWithWitness not found in key.go")
	}
	// parameter names
	if fd.Type.Params == nil || len(fd.Type.Params.List) != 2 || len(fd.Type.Params.List[0].Names) != 1 || len(fd.Type.Params.List[1].Names) != 1 {
		return "", nil, fmt.Errorf("%s: CommitWithWitness does not have parameters (message, witness)", fset.Position(fd.Pos()))
	}
	pm, pw := fd.Type.Params.List[0].Names[0].Name, fd.Type.Params.List[1].Names[0].Name
	if len(fd.Recv.List[0].Names) != 1 || fd.Recv.List[0].Names[0].Name != "k" {
		return "", nil, fmt.Errorf("%s: receiver is not named k", fset.Position(fd.Pos()))
	}
	keyExpr := ""
	var writes []string
	sawReturn := false
	for _, st := range fd.Body.List {
		if sawReturn {
			return "", nil, fmt.Errorf("%s: statement after return: `%s`", fset.Position(st.Pos()), src(fset, st))
		}
		switch s := st.(type) {
		case *ast.IfStmt:
			if !hcIsNilGuard(fset, s) {
				return "", nil, fmt.Errorf("%s: unsupported if statement: `%s`", fset.Position(s.Pos()), src(fset, s))
			}
		case *ast.AssignStmt:
			// h, err := hmacFunc(arg)
			if len(s.Lhs) != 2 || len(s.Rhs) != 1 || src(fset, s.Lhs[0]) != "h" || keyExpr != "" {
				return "", nil, fmt.Errorf("%s: unsupported assignment: `%s`", fset.Position(s.Pos()), src(fset, s))
			}
			call, ok := s.Rhs[0].(*ast.CallExpr)
			if !ok || src(fset, call.Fun) != "hmacFunc" || len(call.Args) != 1 {
				return "", nil, fmt.Errorf("%s: hash is not created by hmacFunc(key): `%s`", fset.Position(s.Pos()), src(fset, s))
			}
			switch {
			case hcSliceOf(call.Args[0], "k"):
				keyExpr = "k"
			case src(fset, call.Args[0]) == "nil":
				keyExpr = "[]"
			default:
				return "", nil, fmt.Errorf("%s: unsupported hash key: `%s`", fset.Position(call.Pos()), src(fset, call.Args[0]))
			}
		case *ast.ExprStmt:
			call, ok := s.X.(*ast.CallExpr)
			if !ok || src(fset, call.Fun) != "h.Write" || len(call.Args) != 1 || keyExpr == "" {
				return "", nil, fmt.Errorf("%s: unsupported statement: `%s`", fset.Position(s.Pos()), src(fset, s))
			}
			a := call.Args[0]
			switch {
			case src(fset, a) == pm:
				writes = append(writes, "message")
			case hcSliceOf(a, pw):
				writes = append(writes, "witness")
			case hcSliceOf(a, "k"):
				writes = append(writes, "k")
			default:
				return "", nil, fmt.Errorf("%s: unsupported argument of h.Write: `%s`", fset.Position(a.Pos()), src(fset, a))
			}
		case *ast.ReturnStmt:
			if len(s.Results) != 2 || src(fset, s.Results[0]) != "Commitment(h.Sum(nil))" || src(fset, s.Results[1]) != "nil" {
				return "", nil, fmt.Errorf("%s: unsupported return: `%s`", fset.Position(s.Pos()), src(fset, s))
			}
			sawReturn = true
		default:
			return "", nil, fmt.Errorf("%s: unsupported statement: `%s`", fset.Position(st.Pos()), src(fset, st))
		}
	}
	if !sawReturn || keyExpr == "" {
		return "", nil, fmt.Errorf("%s: CommitWithWitness does not end in `return Commitment(h.Sum(nil)), nil`", fset.Position(fd.Pos()))
	}
	body := "[]"
	if len(writes) > 0 {
		body = strings.Join(writes, " ++ ")
	}
	var b strings.Builder
	b.WriteString("(* GENERATED by /verif/translator from pkg/commitments/hashcom/{hashcom,key}.go — do not edit. *)\n")
	b.WriteString("From Coq Require Import List NArith.\nImport ListNotations.\nRequire Import V.base.Bytes.\n\n")
	b.WriteString("(* hmacFunc = " + hashName + " : keyed BLAKE2b, 256-bit digest *)\n")
	b.WriteString("Definition hashcom_KeySize : nat := " + keySize + ".\n")
	b.WriteString("Definition hashcom_DigestSize : nat := " + digestSize + ".\n\n")
	b.WriteString("(* CommitWithWitness: the key handed to the hash and the bytes written to it, in order *)\n")
	b.WriteString("Definition hashcom_hash_key (k : bytes) : bytes := " + keyExpr + ".\n")
	b.WriteString("Definition hashcom_writes (k message witness : bytes) : bytes := " + body + ".\n")
	hashes := map[string]string{
		"hashcom.CommitmentKey.CommitWithWitness": hashText(src(fset, fd)),
		"hashcom.consts":                          hashText(keySize + "/" + digestSize + "/" + hashName),
	}
	return b.String(), hashes, nil
}
