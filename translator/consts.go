package main

// genConsts: T-const — constants (labels, limits, tags, parameters). Placeholder.
func genConsts(repo string) (string, map[string]string, error) {
	return "(* GENERATED placeholder *)\n", map[string]string{}, nil
}

func init() { register("Consts", genConsts) }
