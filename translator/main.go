// Command translator regenerates the Coq files under coq/gen from /repo's
// current working tree (go/ast + go/types, standard library only).
//
//	translator -repo /repo -out /verif/coq/gen
//
// Every sub-translator accepts a fixed, small statement language and fails
// loudly (exit 2, "UNTRANSLATABLE <unit>: ...") on anything else: a function the
// translator cannot render is a broken tie, never a silently skipped one.
// A file is rewritten only when its content changed, so that make is a no-op on
// an unchanged tree.  gen/manifest.json records a SHA-256 of the source text of
// every translated function.
package main

import (
	"crypto/sha256"
	"encoding/hex"
	"encoding/json"
	"flag"
	"fmt"
	"os"
	"path/filepath"
	"sort"
	"strings"
)

type unit struct {
	name string // e.g. "Hagrid"
	run  func(repo string) (coq string, hashes map[string]string, err error)
}

// units register themselves from their own file's init() (one file per unit, so that
// independent work never edits a shared list); run in name order.
var units []unit

func register(name string, run func(repo string) (string, map[string]string, error)) {
	units = append(units, unit{name, run})
	sort.Slice(units, func(i, j int) bool { return units[i].name < units[j].name })
}

func main() {
	repo := flag.String("repo", "/repo", "repository root")
	out := flag.String("out", "", "output directory (coq/gen)")
	only := flag.String("only", "", "comma separated unit names (default all)")
	flag.Parse()
	if *out == "" {
		fmt.Fprintln(os.Stderr, "usage: translator -repo DIR -out DIR")
		os.Exit(2)
	}
	if err := os.MkdirAll(*out, 0o755); err != nil {
		panic(err)
	}
	want := map[string]bool{}
	for _, n := range strings.Split(*only, ",") {
		if n != "" {
			want[n] = true
		}
	}
	manifest := map[string]any{}
	status := map[string]string{}
	failed := false
	for _, u := range units {
		if len(want) > 0 && !want[u.name] {
			continue
		}
		coq, hashes, err := u.run(*repo)
		path := filepath.Join(*out, u.name+".v")
		if err != nil {
			fmt.Printf("UNTRANSLATABLE %s: %v\n", u.name, err)
			status[u.name] = "failed: " + err.Error()
			// leave a file that does not compile, so no stale proof is accepted
			writeIfChanged(path, fmt.Sprintf("(* translator failed: %s *)\nDefinition translator_failed : False := I.\n", sanitize(err.Error())))
			failed = true
			continue
		}
		status[u.name] = "ok"
		writeIfChanged(path, coq)
		keys := make([]string, 0, len(hashes))
		for k := range hashes {
			keys = append(keys, k)
		}
		sort.Strings(keys)
		m := map[string]string{}
		for _, k := range keys {
			m[k] = hashes[k]
		}
		manifest[u.name] = m
	}
	manifest["_status"] = status
	b, _ := json.MarshalIndent(manifest, "", " ")
	mpath := filepath.Join(*out, "manifest.json")
	if len(want) == 0 {
		writeIfChanged(mpath, string(b)+"\n")
	}
	if failed {
		os.Exit(2)
	}
}

func sanitize(s string) string {
	s = strings.ReplaceAll(s, "*)", "* )")
	return strings.ReplaceAll(s, "(*", "( *")
}

func writeIfChanged(path, content string) {
	old, err := os.ReadFile(path)
	if err == nil && string(old) == content {
		return
	}
	if err := os.WriteFile(path, []byte(content), 0o644); err != nil {
		panic(err)
	}
}

func hashText(s string) string {
	h := sha256.Sum256([]byte(s))
	return hex.EncodeToString(h[:8])
}
