package main

// genMsmWindow: the window-extraction closure `getWindow` of aimpl.MultiScalarMulLowLevel
// (pkg/base/algebra/impl/mul.go) is re-read from the current source and rendered as a Gallina
// function WITH THE GO TYPING OF EVERY SUBEXPRESSION: arithmetic whose static type is byte/uint8
// is reduced modulo 256 (so `uint(bit << uint(k))` and `uint(bit) << uint(k)` are different
// terms), int/uint arithmetic is rendered on N (the values are bit indices and windows of at most
// 16 bits; no 64-bit wrap-around is modelled).  coq/proofs/ScalarMul_proofs.v proves that the
// generated function equals the hand-written get_window of model/ScalarMul.v, about which
// msm_correct is stated.
//
// Accepted shape (anything else is an error):
//
//	getWindow := func(b []byte, start int) uint {
//		if len(b) == 0 { return 0 }
//		var acc uint
//		for k := range w {
//			x := EXPR ...                       (short variable declarations)
//			if COND { break }
//			acc |= EXPR   /  acc = EXPR
//		}
//		return acc
//	}
//
// EXPR: identifiers, integer literals, + * / % << >> & |, b[i], len(b), conversions uint/int/uint64
// (value preserving) and byte/uint8 (mod 256), parentheses.  COND: == != < <= > >= of two EXPR.

import (
	"fmt"
	"go/ast"
	"go/parser"
	"go/token"
	"go/types"
	"path/filepath"
	"strings"
)

type gwTr struct {
	fset *token.FileSet
	info *types.Info
	vars map[string]bool
}

func (g *gwTr) errf(n ast.Node, format string, a ...any) error {
	return fmt.Errorf("MultiScalarMulLowLevel.getWindow: %s: %s: `%s`", g.fset.Position(n.Pos()), fmt.Sprintf(format, a...), src(g.fset, n))
}

// isByte reports whether the static type of e is byte/uint8; unknown types are an error.
func (g *gwTr) isByte(e ast.Expr) (bool, error) {
	tv, ok := g.info.Types[e]
	if !ok || tv.Type == nil {
		return false, g.errf(e, "no static type")
	}
	b, ok := tv.Type.Underlying().(*types.Basic)
	if !ok {
		return false, g.errf(e, "not a basic type (%s)", tv.Type)
	}
	switch b.Kind() {
	case types.Uint8:
		return true, nil
	case types.Int, types.Uint, types.Uint64, types.Int64, types.UntypedInt:
		return false, nil
	}
	return false, g.errf(e, "unsupported integer type %s", tv.Type)
}

func (g *gwTr) expr(e ast.Expr) (string, error) {
	switch x := e.(type) {
	case *ast.ParenExpr:
		return g.expr(x.X)
	case *ast.Ident:
		if g.vars[x.Name] {
			return x.Name, nil
		}
		return "", g.errf(e, "unknown identifier")
	case *ast.BasicLit:
		if x.Kind != token.INT {
			return "", g.errf(e, "unsupported literal")
		}
		return x.Value, nil
	case *ast.IndexExpr:
		id, ok := x.X.(*ast.Ident)
		if !ok || id.Name != "b" {
			return "", g.errf(e, "only b[...] may be indexed")
		}
		i, err := g.expr(x.Index)
		if err != nil {
			return "", err
		}
		return fmt.Sprintf("(nth (N.to_nat %s) b 0)", i), nil
	case *ast.CallExpr:
		if len(x.Args) != 1 {
			return "", g.errf(e, "unsupported call")
		}
		f, ok := x.Fun.(*ast.Ident)
		if !ok {
			return "", g.errf(e, "unsupported call")
		}
		if f.Name == "len" {
			if id, ok := x.Args[0].(*ast.Ident); ok && id.Name == "b" {
				return "(N.of_nat (length b))", nil
			}
			return "", g.errf(e, "len of something else than b")
		}
		a, err := g.expr(x.Args[0])
		if err != nil {
			return "", err
		}
		switch f.Name {
		case "uint", "int", "uint64":
			return a, nil // value preserving on the (small, non-negative) values that occur
		case "byte", "uint8":
			return fmt.Sprintf("(wrap8 %s)", a), nil
		}
		return "", g.errf(e, "unsupported conversion")
	case *ast.BinaryExpr:
		l, err := g.expr(x.X)
		if err != nil {
			return "", err
		}
		r, err := g.expr(x.Y)
		if err != nil {
			return "", err
		}
		byteTyped, err := g.isByte(e)
		if err != nil {
			return "", err
		}
		var t string
		wraps := false
		switch x.Op {
		case token.ADD:
			t, wraps = fmt.Sprintf("(%s + %s)", l, r), true
		case token.MUL:
			t, wraps = fmt.Sprintf("(%s * %s)", l, r), true
		case token.QUO:
			t = fmt.Sprintf("(%s / %s)", l, r)
		case token.REM:
			t = fmt.Sprintf("(%s mod %s)", l, r)
		case token.SHL:
			t, wraps = fmt.Sprintf("(N.shiftl %s %s)", l, r), true
		case token.SHR:
			t = fmt.Sprintf("(N.shiftr %s %s)", l, r)
		case token.AND:
			t = fmt.Sprintf("(N.land %s %s)", l, r)
		case token.OR:
			t = fmt.Sprintf("(N.lor %s %s)", l, r)
		default:
			return "", g.errf(e, "unsupported operator")
		}
		if byteTyped && wraps {
			t = fmt.Sprintf("(wrap8 %s)", t)
		}
		return t, nil
	}
	return "", g.errf(e, "unsupported expression")
}

func (g *gwTr) cond(e ast.Expr) (string, error) {
	be, ok := e.(*ast.BinaryExpr)
	if !ok {
		return "", g.errf(e, "unsupported condition")
	}
	l, err := g.expr(be.X)
	if err != nil {
		return "", err
	}
	r, err := g.expr(be.Y)
	if err != nil {
		return "", err
	}
	switch be.Op {
	case token.EQL:
		return fmt.Sprintf("(%s =? %s)", l, r), nil
	case token.NEQ:
		return fmt.Sprintf("(negb (%s =? %s))", l, r), nil
	case token.LSS:
		return fmt.Sprintf("(%s <? %s)", l, r), nil
	case token.LEQ:
		return fmt.Sprintf("(%s <=? %s)", l, r), nil
	case token.GTR:
		return fmt.Sprintf("(%s <? %s)", r, l), nil
	case token.GEQ:
		return fmt.Sprintf("(%s <=? %s)", r, l), nil
	}
	return "", g.errf(e, "unsupported comparison")
}

func genMsmWindow(repo string) (string, map[string]string, error) {
	path := filepath.Join(repo, "pkg/base/algebra/impl/mul.go")
	fset := token.NewFileSet()
	f, err := parser.ParseFile(fset, path, nil, 0)
	if err != nil {
		return "", nil, err
	}
	_, info := typeCheckLoose(fset, []*ast.File{f})
	fd := findMethod(f, "", "MultiScalarMulLowLevel")
	if fd == nil {
		return "", nil, fmt.Errorf("MultiScalarMulLowLevel not found")
	}
	var lit *ast.FuncLit
	ast.Inspect(fd, func(n ast.Node) bool {
		as, ok := n.(*ast.AssignStmt)
		if !ok || as.Tok != token.DEFINE || len(as.Lhs) != 1 || len(as.Rhs) != 1 {
			return true
		}
		if id, ok := as.Lhs[0].(*ast.Ident); ok && id.Name == "getWindow" {
			if fl, ok := as.Rhs[0].(*ast.FuncLit); ok {
				lit = fl
			}
		}
		return true
	})
	if lit == nil {
		return "", nil, fmt.Errorf("MultiScalarMulLowLevel: closure getWindow not found")
	}
	g := &gwTr{fset: fset, info: info, vars: map[string]bool{"w": true}}
	// signature: func(b []byte, start int) uint
	ps := lit.Type.Params.List
	if len(ps) != 2 || len(ps[0].Names) != 1 || ps[0].Names[0].Name != "b" || src(fset, ps[0].Type) != "[]byte" ||
		len(ps[1].Names) != 1 || src(fset, ps[1].Type) != "int" || lit.Type.Results == nil || len(lit.Type.Results.List) != 1 ||
		src(fset, lit.Type.Results.List[0].Type) != "uint" {
		return "", nil, g.errf(lit.Type, "expected func(b []byte, start int) uint")
	}
	startName := ps[1].Names[0].Name
	g.vars[startName] = true
	body := lit.Body.List
	if len(body) != 4 {
		return "", nil, g.errf(lit.Body, "expected: guard, var acc, for loop, return")
	}
	// 1. if len(b) == 0 { return 0 }
	ifs, ok := body[0].(*ast.IfStmt)
	if !ok || ifs.Init != nil || ifs.Else != nil || len(ifs.Body.List) != 1 {
		return "", nil, g.errf(body[0], "expected the empty-string guard")
	}
	ret0, ok := ifs.Body.List[0].(*ast.ReturnStmt)
	if !ok || len(ret0.Results) != 1 || src(fset, ret0.Results[0]) != "0" {
		return "", nil, g.errf(body[0], "the guard must return 0")
	}
	guard, err := g.cond(ifs.Cond)
	if err != nil {
		return "", nil, err
	}
	// 2. var acc uint
	ds, ok := body[1].(*ast.DeclStmt)
	if !ok || src(fset, ds) != "var acc uint" {
		return "", nil, g.errf(body[1], "expected `var acc uint`")
	}
	g.vars["acc"] = true
	// 3. for k := range w { ... }
	rs, ok := body[2].(*ast.RangeStmt)
	if !ok || rs.Value != nil || rs.Tok != token.DEFINE || src(fset, rs.X) != "w" {
		return "", nil, g.errf(body[2], "expected `for k := range w`")
	}
	kid, ok := rs.Key.(*ast.Ident)
	if !ok {
		return "", nil, g.errf(body[2], "expected a loop variable")
	}
	g.vars[kid.Name] = true
	var lines []string
	closes := 0
	accExpr := "acc"
	for _, st := range rs.Body.List {
		switch x := st.(type) {
		case *ast.AssignStmt:
			if len(x.Lhs) != 1 || len(x.Rhs) != 1 {
				return "", nil, g.errf(st, "unsupported assignment")
			}
			lhs, ok := x.Lhs[0].(*ast.Ident)
			if !ok {
				return "", nil, g.errf(st, "unsupported assignment target")
			}
			rhs, err := g.expr(x.Rhs[0])
			if err != nil {
				return "", nil, err
			}
			switch x.Tok {
			case token.DEFINE:
				if g.vars[lhs.Name] {
					return "", nil, g.errf(st, "redeclaration")
				}
				// a byte-typed variable keeps byte-typed values: nothing to add, the expression is already wrapped
				lines = append(lines, fmt.Sprintf("let %s := %s in", lhs.Name, rhs))
				g.vars[lhs.Name] = true
			case token.OR_ASSIGN:
				if lhs.Name != "acc" {
					return "", nil, g.errf(st, "only acc may be updated")
				}
				lines = append(lines, fmt.Sprintf("let acc := N.lor acc %s in", rhs))
			case token.ASSIGN:
				if lhs.Name != "acc" {
					return "", nil, g.errf(st, "only acc may be updated")
				}
				lines = append(lines, fmt.Sprintf("let acc := %s in", rhs))
			default:
				return "", nil, g.errf(st, "unsupported assignment operator")
			}
		case *ast.IfStmt:
			if x.Init != nil || x.Else != nil || len(x.Body.List) != 1 {
				return "", nil, g.errf(st, "unsupported if")
			}
			br, ok := x.Body.List[0].(*ast.BranchStmt)
			if !ok || br.Tok != token.BREAK || br.Label != nil {
				return "", nil, g.errf(st, "only `if COND { break }` is accepted")
			}
			c, err := g.cond(x.Cond)
			if err != nil {
				return "", nil, err
			}
			lines = append(lines, fmt.Sprintf("if %s then None else (", c))
			closes++
		default:
			return "", nil, g.errf(st, "unsupported statement")
		}
	}
	// 4. return acc
	ret, ok := body[3].(*ast.ReturnStmt)
	if !ok || len(ret.Results) != 1 || src(fset, ret.Results[0]) != "acc" {
		return "", nil, g.errf(body[3], "expected `return acc`")
	}
	var out strings.Builder
	out.WriteString("(* GENERATED by /verif/translator (msmwindow.go) from the closure getWindow of\n" +
		"   MultiScalarMulLowLevel in pkg/base/algebra/impl/mul.go — do not edit.\n" +
		"   Subexpressions whose Go type is byte are reduced modulo 256 (wrap8); int/uint arithmetic is on N. *)\n")
	out.WriteString("From Coq Require Import NArith List Bool.\nLocal Open Scope N_scope.\n\n")
	out.WriteString("Definition wrap8 (x : N) : N := x mod 256.\n\n")
	out.WriteString("(* `for k := range w`: iterate the body for k = k0, k0+1, ... (n times); None = break *)\n")
	out.WriteString("Fixpoint range_loop (body : N -> N -> option N) (k : N) (n : nat) (acc : N) : N :=\n" +
		"  match n with\n  | O => acc\n  | S n' => match body k acc with None => acc | Some acc' => range_loop body (N.succ k) n' acc' end\n  end.\n\n")
	fmt.Fprintf(&out, "(* the body of the loop; %s = start bit, %s = loop variable *)\n", startName, kid.Name)
	fmt.Fprintf(&out, "Definition getWindow_body (b : list N) (%s : N) (%s : N) (acc : N) : option N :=\n", startName, kid.Name)
	for _, l := range lines {
		fmt.Fprintf(&out, "  %s\n", l)
	}
	fmt.Fprintf(&out, "  Some %s%s.\n\n", accExpr, strings.Repeat(")", closes))
	fmt.Fprintf(&out, "Definition getWindow (w : N) (b : list N) (%s : N) : N :=\n  if %s then 0\n  else range_loop (getWindow_body b %s) 0 (N.to_nat w) 0.\n",
		startName, guard, startName)
	_ = accExpr
	return out.String(), map[string]string{"MultiScalarMulLowLevel.getWindow": hashText(src(fset, lit))}, nil
}

func init() { register("MsmWindow", genMsmWindow) }
