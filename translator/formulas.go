package main

// genFormulas: T-slp — straight-line field programs (curve addition formulas, field towers).
// Owned by the C14 work; placeholder until then.
func genFormulas(repo string) (string, map[string]string, error) {
	return "(* GENERATED placeholder *)\n", map[string]string{}, nil
}

func init() { register("Formulas", genFormulas) }
