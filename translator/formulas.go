package main

// genFormulas: T-slp — the straight-line field programs of
//
//	pkg/base/curves/impl/points/weierstrass.go   (Add Double Neg Equal IsZero SetZero SetAffine ToAffine setFractions Sub)
//	pkg/base/curves/impl/points/edwards.go       (Add Double Neg Equal IsZero SetZero ToAffine setFractions Sub)
//	pkg/base/algebra/impl/fields/quadratic.go    (Add Sub Neg Double Mul Square)
//	pkg/base/algebra/impl/fields/cubic.go        (Add Sub Neg Double Mul Square)
//
// are re-read from the current source on every run and rendered as Gallina `let` chains over an
// abstract field record (coq/base/Fld.v) into coq/gen/Formulas.v.  The proofs of
// coq/proofs/Curve_proofs.v are about these generated definitions.
//
// Accepted statement forms (anything else is an error naming the function — a broken tie,
// never a silent skip):
//
//	var a, b F                      locals of the field type (F, BF)
//	var params C                    the curve/tower parameter object (C, A)
//	t := FP(&tf) / FP(&lhs.X)       pointer aliases
//	R.Op(args)                      R, args: alias, FP parameter, &local, &S.Field, FP(..)/BFP(..) casts;
//	                                Op in Add Sub Mul Square Neg Double Set SetZero SetOne Select
//	ok = R.Equal(x) / ok = R.Inv(x) boolean results (ok := on a fresh name as well)
//	params.MulByA/MulBy3B/AddA/AddB/MulByD/MulBy2D/MulByQuadraticNonResidue/MulByCubicNonResidue(dst, src)
//	p.X = *x3                       field assignment from an alias
//	return [boolean expression of Equal / IsZero / IsNonZero / & / named result]
//
// and, for Sub only, the fixed shape  var t T; t.Neg(rhs); p.Add(lhs, &t)  (rendered with the
// translated Neg and Add).
//
// Pointer aliasing: the receiver may alias a struct argument (p.Add(p, q) is how the library
// calls these), so reading S.F after the receiver's field F has been written is rejected.

import (
	"fmt"
	"go/ast"
	"go/parser"
	"go/token"
	"path/filepath"
	"sort"
	"strings"
)

type slpKind struct {
	file     string   // path below the repository root
	typ      string   // receiver type name
	prefix   string   // Coq name prefix
	section  string   // Coq section name
	vars     string   // section variables
	castOK   []string // accepted cast names
	fieldTy  []string // names of the field element type parameter
	paramTy  []string // names of the parameter-object type parameter
	paramOps map[string]string
	funcs    []string
}

var slpKinds = []slpKind{
	{
		file: "pkg/base/curves/impl/points/weierstrass.go", typ: "ShortWeierstrassPointImpl", prefix: "W_", section: "ShortWeierstrass",
		vars: "(a b : F)", castOK: []string{"FP"}, fieldTy: []string{"F"}, paramTy: []string{"C"},
		paramOps: map[string]string{"MulByA": "a * %s", "MulBy3B": "(b + b + b) * %s", "AddA": "%s + a", "AddB": "%s + b"},
		funcs:    []string{"Add", "Double", "Neg", "Equal", "IsZero", "SetZero", "SetAffine", "ToAffine", "setFractions"},
	},
	{
		file: "pkg/base/curves/impl/points/edwards.go", typ: "TwistedEdwardsPointImpl", prefix: "E_", section: "TwistedEdwards",
		vars: "(a d : F)", castOK: []string{"FP"}, fieldTy: []string{"F"}, paramTy: []string{"C"},
		paramOps: map[string]string{"MulByA": "a * %s", "MulByD": "d * %s", "MulBy2D": "(d + d) * %s"},
		funcs:    []string{"Add", "Double", "Neg", "Equal", "IsZero", "SetZero", "ToAffine", "setFractions"},
	},
	{
		file: "pkg/base/algebra/impl/fields/quadratic.go", typ: "QuadraticFieldExtensionImpl", prefix: "Q_", section: "QuadraticExtension",
		vars: "(beta : F)", castOK: []string{"BFP"}, fieldTy: []string{"BF"}, paramTy: []string{"A"},
		paramOps: map[string]string{"MulByQuadraticNonResidue": "beta * %s"},
		funcs:    []string{"Add", "Sub", "Neg", "Double", "Mul", "Square"},
	},
	{
		file: "pkg/base/algebra/impl/fields/cubic.go", typ: "CubicFieldExtensionImpl", prefix: "C_", section: "CubicExtension",
		vars: "(xi : F)", castOK: []string{"BFP"}, fieldTy: []string{"BF"}, paramTy: []string{"A"},
		paramOps: map[string]string{"MulByCubicNonResidue": "xi * %s"},
		funcs:    []string{"Add", "Sub", "Neg", "Double", "Mul", "Square"},
	},
}

type slp struct {
	fset   *token.FileSet
	kind   *slpKind
	fname  string
	fields []string // struct fields in declaration order

	recv      string
	structPar []string        // struct-typed parameters, in order
	fpPar     []string        // field-pointer parameters, in order
	isStruct  map[string]bool // receiver and struct parameters
	isFP      map[string]bool
	paramObj  map[string]bool
	locals    map[string]bool
	alias     map[string]string
	env       map[string]string
	benv      map[string]string
	written   map[string]bool // receiver field names written so far
	wroteFP   map[string]bool
	recvRead  map[string]bool // receiver fields read before being written (become inputs)
	counter   map[string]int
	lets      []string
	resultVar string // named boolean result, if any
	hasResult bool
	ret       string
}

func (s *slp) errf(n ast.Node, format string, a ...any) error {
	return fmt.Errorf("%s.%s: %s: %s: `%s`", s.kind.typ, s.fname, s.fset.Position(n.Pos()), fmt.Sprintf(format, a...), src(s.fset, n))
}

func contains(xs []string, x string) bool {
	for _, y := range xs {
		if x == y {
			return true
		}
	}
	return false
}

// typeName strips pointer and type arguments: *T[...] -> T
func typeName(e ast.Expr) string {
	if st, ok := e.(*ast.StarExpr); ok {
		e = st.X
	}
	switch t := e.(type) {
	case *ast.IndexExpr:
		e = t.X
	case *ast.IndexListExpr:
		e = t.X
	}
	if id, ok := e.(*ast.Ident); ok {
		return id.Name
	}
	return ""
}

func (s *slp) baseName(loc string) string {
	i := strings.Index(loc, ":")
	return strings.ReplaceAll(loc[i+1:], ".", "_")
}

// loc resolves a pointer-valued expression to a location key.
func (s *slp) loc(e ast.Expr) (string, error) {
	switch x := e.(type) {
	case *ast.Ident:
		if l, ok := s.alias[x.Name]; ok {
			return l, nil
		}
		if s.isFP[x.Name] {
			return "ptr:" + x.Name, nil
		}
		return "", s.errf(e, "not a field pointer")
	case *ast.ParenExpr:
		return s.loc(x.X)
	case *ast.UnaryExpr:
		if x.Op != token.AND {
			return "", s.errf(e, "unsupported operator")
		}
		switch y := x.X.(type) {
		case *ast.Ident:
			if s.locals[y.Name] {
				return "loc:" + y.Name, nil
			}
			return "", s.errf(e, "address of an unknown local")
		case *ast.SelectorExpr:
			if id, ok := y.X.(*ast.Ident); ok && s.isStruct[id.Name] && contains(s.fields, y.Sel.Name) {
				return "fld:" + id.Name + "." + y.Sel.Name, nil
			}
			return "", s.errf(e, "address of an unknown field")
		}
		return "", s.errf(e, "unsupported address expression")
	case *ast.CallExpr:
		if id, ok := x.Fun.(*ast.Ident); ok && contains(s.kind.castOK, id.Name) && len(x.Args) == 1 {
			return s.loc(x.Args[0])
		}
		return "", s.errf(e, "unsupported call in pointer position")
	}
	return "", s.errf(e, "unsupported pointer expression")
}

func (s *slp) read(n ast.Node, loc string) (string, error) {
	if strings.HasPrefix(loc, "fld:") {
		sf := strings.SplitN(loc[4:], ".", 2)
		if sf[0] != s.recv && s.written[sf[1]] {
			return "", s.errf(n, "%s is read after the receiver's field %s was written (the receiver may alias %s)", loc[4:], sf[1], sf[0])
		}
	}
	if v, ok := s.env[loc]; ok {
		return v, nil
	}
	switch {
	case strings.HasPrefix(loc, "loc:"):
		return "", s.errf(n, "local %s is read before it is written", loc[4:])
	case strings.HasPrefix(loc, "ptr:"):
		v := loc[4:]
		s.env[loc] = v
		return v, nil
	default: // fld:S.F
		sf := strings.SplitN(loc[4:], ".", 2)
		if sf[0] != s.recv && s.written[sf[1]] {
			return "", s.errf(n, "%s is read after the receiver's field %s was written (the receiver may alias %s)", loc[4:], sf[1], sf[0])
		}
		v := sf[0] + "_" + sf[1]
		if sf[0] == s.recv {
			s.recvRead[sf[1]] = true
		}
		s.env[loc] = v
		return v, nil
	}
}

func (s *slp) write(loc, expr string) {
	base := s.baseName(loc)
	s.counter[base]++
	name := fmt.Sprintf("%s_%d", base, s.counter[base])
	s.lets = append(s.lets, fmt.Sprintf("let %s := %s in", name, expr))
	s.env[loc] = name
	if strings.HasPrefix(loc, "fld:") {
		sf := strings.SplitN(loc[4:], ".", 2)
		if sf[0] == s.recv {
			s.written[sf[1]] = true
		} else {
			// writing through an argument struct is not something these functions do
			s.written["!"+loc] = true
		}
	}
	if strings.HasPrefix(loc, "ptr:") {
		s.wroteFP[loc[4:]] = true
	}
}

func (s *slp) writeBool(name, expr string) {
	s.counter[name]++
	n := fmt.Sprintf("%s_%d", name, s.counter[name])
	s.lets = append(s.lets, fmt.Sprintf("let %s := %s in", n, expr))
	s.benv[name] = n
}

// boolExpr renders a boolean (ct.Bool / ct.Choice) expression.
func (s *slp) boolExpr(e ast.Expr) (string, error) {
	switch x := e.(type) {
	case *ast.ParenExpr:
		return s.boolExpr(x.X)
	case *ast.Ident:
		if v, ok := s.benv[x.Name]; ok {
			return v, nil
		}
		return "", s.errf(e, "unknown boolean")
	case *ast.BinaryExpr:
		if x.Op != token.AND && x.Op != token.OR {
			return "", s.errf(e, "unsupported boolean operator")
		}
		l, err := s.boolExpr(x.X)
		if err != nil {
			return "", err
		}
		r, err := s.boolExpr(x.Y)
		if err != nil {
			return "", err
		}
		if x.Op == token.AND {
			return "andb (" + l + ") (" + r + ")", nil
		}
		return "orb (" + l + ") (" + r + ")", nil
	case *ast.CallExpr:
		sel, ok := x.Fun.(*ast.SelectorExpr)
		if !ok {
			return "", s.errf(e, "unsupported boolean call")
		}
		rl, err := s.loc(sel.X)
		if err != nil {
			return "", err
		}
		rv, err := s.read(e, rl)
		if err != nil {
			return "", err
		}
		switch sel.Sel.Name {
		case "Equal":
			if len(x.Args) != 1 {
				return "", s.errf(e, "Equal arity")
			}
			al, err := s.loc(x.Args[0])
			if err != nil {
				return "", err
			}
			av, err := s.read(e, al)
			if err != nil {
				return "", err
			}
			return fmt.Sprintf("feqb K %s %s", rv, av), nil
		case "IsZero":
			if len(x.Args) != 0 {
				return "", s.errf(e, "IsZero arity")
			}
			return fmt.Sprintf("fis0 K %s", rv), nil
		case "IsNonZero":
			if len(x.Args) != 0 {
				return "", s.errf(e, "IsNonZero arity")
			}
			return fmt.Sprintf("negb (fis0 K %s)", rv), nil
		}
		return "", s.errf(e, "unsupported boolean method %s", sel.Sel.Name)
	}
	return "", s.errf(e, "unsupported boolean expression")
}

// call handles `R.Op(args)` and `params.Op(dst, src)`; boolTarget != "" when the call's result is assigned.
func (s *slp) call(c *ast.CallExpr, boolTarget string) error {
	sel, ok := c.Fun.(*ast.SelectorExpr)
	if !ok {
		return s.errf(c, "unsupported call")
	}
	op := sel.Sel.Name
	if id, ok := sel.X.(*ast.Ident); ok && s.paramObj[id.Name] {
		tmpl, ok := s.kind.paramOps[op]
		if !ok {
			return s.errf(c, "unknown parameter operation %s", op)
		}
		if len(c.Args) != 2 || boolTarget != "" {
			return s.errf(c, "parameter operation shape")
		}
		dst, err := s.loc(c.Args[0])
		if err != nil {
			return err
		}
		sl, err := s.loc(c.Args[1])
		if err != nil {
			return err
		}
		sv, err := s.read(c, sl)
		if err != nil {
			return err
		}
		s.write(dst, fmt.Sprintf(tmpl, sv))
		return nil
	}
	dst, err := s.loc(sel.X)
	if err != nil {
		return err
	}
	argv := func(i int) (string, error) {
		l, err := s.loc(c.Args[i])
		if err != nil {
			return "", err
		}
		return s.read(c, l)
	}
	want := func(n int) error {
		if len(c.Args) != n {
			return s.errf(c, "%s expects %d arguments", op, n)
		}
		return nil
	}
	if boolTarget != "" {
		switch op {
		case "Equal":
			b, err := s.boolExpr(c)
			if err != nil {
				return err
			}
			s.writeBool(boolTarget, b)
			return nil
		case "Inv":
			if err := want(1); err != nil {
				return err
			}
			a, err := argv(0)
			if err != nil {
				return err
			}
			s.writeBool(boolTarget, fmt.Sprintf("negb (fis0 K %s)", a))
			s.write(dst, fmt.Sprintf("finv K %s", a))
			return nil
		}
		return s.errf(c, "unsupported boolean-valued operation %s", op)
	}
	switch op {
	case "Add", "Sub", "Mul":
		if err := want(2); err != nil {
			return err
		}
		a, err := argv(0)
		if err != nil {
			return err
		}
		b, err := argv(1)
		if err != nil {
			return err
		}
		sym := map[string]string{"Add": "+", "Sub": "-", "Mul": "*"}[op]
		s.write(dst, fmt.Sprintf("%s %s %s", a, sym, b))
	case "Square", "Double", "Neg", "Set":
		if err := want(1); err != nil {
			return err
		}
		a, err := argv(0)
		if err != nil {
			return err
		}
		switch op {
		case "Square":
			s.write(dst, fmt.Sprintf("%s * %s", a, a))
		case "Double":
			s.write(dst, fmt.Sprintf("%s + %s", a, a))
		case "Neg":
			s.write(dst, fmt.Sprintf("- %s", a))
		default:
			s.write(dst, a)
		}
	case "SetZero":
		if err := want(0); err != nil {
			return err
		}
		s.write(dst, "f0 K")
	case "SetOne":
		if err := want(0); err != nil {
			return err
		}
		s.write(dst, "f1 K")
	case "Select", "CMove":
		// Select(choice, z, nz): nz when choice is set, z otherwise
		if err := want(3); err != nil {
			return err
		}
		ch, err := s.boolExpr(c.Args[0])
		if err != nil {
			return err
		}
		z, err := argv(1)
		if err != nil {
			return err
		}
		nz, err := argv(2)
		if err != nil {
			return err
		}
		s.write(dst, fmt.Sprintf("if %s then %s else %s", ch, nz, z))
	default:
		return s.errf(c, "unsupported field operation %s", op)
	}
	return nil
}

func (s *slp) stmt(st ast.Stmt) error {
	switch x := st.(type) {
	case *ast.DeclStmt:
		gd, ok := x.Decl.(*ast.GenDecl)
		if !ok || gd.Tok != token.VAR {
			return s.errf(st, "unsupported declaration")
		}
		for _, sp := range gd.Specs {
			vs := sp.(*ast.ValueSpec)
			if len(vs.Values) != 0 {
				return s.errf(st, "initialised declaration")
			}
			tn := ""
			if id, ok := vs.Type.(*ast.Ident); ok {
				tn = id.Name
			}
			switch {
			case contains(s.kind.fieldTy, tn):
				for _, n := range vs.Names {
					s.locals[n.Name] = true
				}
			case contains(s.kind.paramTy, tn):
				for _, n := range vs.Names {
					s.paramObj[n.Name] = true
				}
			default:
				return s.errf(st, "declaration of unsupported type")
			}
		}
		return nil
	case *ast.ExprStmt:
		c, ok := x.X.(*ast.CallExpr)
		if !ok {
			return s.errf(st, "unsupported expression statement")
		}
		return s.call(c, "")
	case *ast.AssignStmt:
		if len(x.Lhs) != 1 || len(x.Rhs) != 1 {
			return s.errf(st, "unsupported assignment")
		}
		// p.X = *x3
		if sel, ok := x.Lhs[0].(*ast.SelectorExpr); ok && x.Tok == token.ASSIGN {
			id, ok := sel.X.(*ast.Ident)
			star, ok2 := x.Rhs[0].(*ast.StarExpr)
			if !ok || !ok2 || id.Name != s.recv || !contains(s.fields, sel.Sel.Name) {
				return s.errf(st, "unsupported field assignment")
			}
			l, err := s.loc(star.X)
			if err != nil {
				return err
			}
			v, err := s.read(st, l)
			if err != nil {
				return err
			}
			s.write("fld:"+s.recv+"."+sel.Sel.Name, v)
			return nil
		}
		lhs, ok := x.Lhs[0].(*ast.Ident)
		if !ok {
			return s.errf(st, "unsupported assignment target")
		}
		// alias definition  t := FP(&tf)
		if x.Tok == token.DEFINE {
			if c, ok := x.Rhs[0].(*ast.CallExpr); ok {
				if id, ok := c.Fun.(*ast.Ident); ok && contains(s.kind.castOK, id.Name) {
					l, err := s.loc(c)
					if err != nil {
						return err
					}
					s.alias[lhs.Name] = l
					return nil
				}
			}
		}
		// ok = R.Equal(x) | ok = R.Inv(x) | ok := ...
		if c, ok := x.Rhs[0].(*ast.CallExpr); ok {
			if x.Tok == token.ASSIGN && lhs.Name != s.resultVar {
				if _, known := s.benv[lhs.Name]; !known {
					return s.errf(st, "assignment to an unknown boolean")
				}
			}
			return s.call(c, lhs.Name)
		}
		return s.errf(st, "unsupported assignment")
	case *ast.ReturnStmt:
		if len(x.Results) == 0 {
			if s.hasResult {
				v, ok := s.benv[s.resultVar]
				if !ok {
					return s.errf(st, "named result is never assigned")
				}
				s.ret = v
			}
			return nil
		}
		if len(x.Results) != 1 {
			return s.errf(st, "unsupported return")
		}
		b, err := s.boolExpr(x.Results[0])
		if err != nil {
			return err
		}
		s.ret = b
		return nil
	}
	return s.errf(st, "unsupported statement")
}

func structFields(f *ast.File, name string) []string {
	var out []string
	ast.Inspect(f, func(n ast.Node) bool {
		ts, ok := n.(*ast.TypeSpec)
		if !ok || ts.Name.Name != name {
			return true
		}
		if st, ok := ts.Type.(*ast.StructType); ok {
			for _, fl := range st.Fields.List {
				for _, nm := range fl.Names {
					out = append(out, nm.Name)
				}
			}
		}
		return false
	})
	return out
}

func translateSLP(fset *token.FileSet, f *ast.File, k *slpKind, fname string) (string, string, error) {
	fd := findMethod(f, k.typ, fname)
	if fd == nil {
		return "", "", fmt.Errorf("%s.%s: method not found", k.typ, fname)
	}
	s := &slp{fset: fset, kind: k, fname: fname, fields: structFields(f, k.typ),
		isStruct: map[string]bool{}, isFP: map[string]bool{}, paramObj: map[string]bool{}, locals: map[string]bool{},
		alias: map[string]string{}, env: map[string]string{}, benv: map[string]string{}, written: map[string]bool{},
		wroteFP: map[string]bool{}, recvRead: map[string]bool{}, counter: map[string]int{}}
	if len(s.fields) == 0 {
		return "", "", fmt.Errorf("%s: struct fields not found", k.typ)
	}
	if fd.Recv == nil || len(fd.Recv.List) != 1 || len(fd.Recv.List[0].Names) != 1 {
		return "", "", fmt.Errorf("%s.%s: unnamed receiver", k.typ, fname)
	}
	s.recv = fd.Recv.List[0].Names[0].Name
	s.isStruct[s.recv] = true
	for _, p := range fd.Type.Params.List {
		tn := typeName(p.Type)
		for _, n := range p.Names {
			switch {
			case tn == k.typ:
				s.isStruct[n.Name] = true
				s.structPar = append(s.structPar, n.Name)
			case contains(k.castOK, tn):
				s.isFP[n.Name] = true
				s.fpPar = append(s.fpPar, n.Name)
			default:
				return "", "", s.errf(p, "unsupported parameter type")
			}
		}
	}
	for _, n := range append(append([]string{s.recv}, s.structPar...), s.fpPar...) {
		if contains([]string{"a", "b", "d", "beta", "xi", "K", "F"}, n) {
			return "", "", fmt.Errorf("%s.%s: parameter name %s collides with a section variable of the generated file", k.typ, fname, n)
		}
	}
	if fd.Type.Results != nil {
		if len(fd.Type.Results.List) != 1 {
			return "", "", s.errf(fd.Type.Results, "unsupported results")
		}
		r := fd.Type.Results.List[0]
		if src(fset, r.Type) != "ct.Bool" {
			return "", "", s.errf(r, "unsupported result type")
		}
		s.hasResult = true
		if len(r.Names) == 1 {
			s.resultVar = r.Names[0].Name
		}
	}
	for _, st := range fd.Body.List {
		if err := s.stmt(st); err != nil {
			return "", "", err
		}
	}
	if s.hasResult && s.ret == "" {
		return "", "", fmt.Errorf("%s.%s: no return value recorded", k.typ, fname)
	}
	for w := range s.written {
		if strings.HasPrefix(w, "!") {
			return "", "", fmt.Errorf("%s.%s: writes through an argument (%s)", k.typ, fname, w[1:])
		}
	}
	// signature: struct parameters (all fields), FP parameters, then receiver fields that are read before written
	var params []string
	for _, sp := range s.structPar {
		for _, fl := range s.fields {
			params = append(params, sp+"_"+fl)
		}
	}
	params = append(params, s.fpPar...)
	for _, fl := range s.fields {
		if s.recvRead[fl] {
			params = append(params, s.recv+"_"+fl)
		}
	}
	// result: boolean result, receiver fields written (declaration order), FP parameters written
	var outs []string
	var outNames []string
	if s.hasResult {
		outs = append(outs, s.ret)
		outNames = append(outNames, "ok")
	}
	for _, fl := range s.fields {
		if s.written[fl] {
			outs = append(outs, s.env["fld:"+s.recv+"."+fl])
			outNames = append(outNames, s.recv+"."+fl)
		}
	}
	var fpw []string
	for n := range s.wroteFP {
		fpw = append(fpw, n)
	}
	sort.Slice(fpw, func(i, j int) bool {
		return indexOf(s.fpPar, fpw[i]) < indexOf(s.fpPar, fpw[j])
	})
	for _, n := range fpw {
		outs = append(outs, s.env["ptr:"+n])
		outNames = append(outNames, "*"+n)
	}
	if len(outs) == 0 {
		return "", "", fmt.Errorf("%s.%s: no observable output", k.typ, fname)
	}
	var b strings.Builder
	fmt.Fprintf(&b, "  (* %s.%s — result: (%s) *)\n", k.typ, fname, strings.Join(outNames, ", "))
	ps := ""
	if len(params) > 0 {
		ps = " (" + strings.Join(params, " ") + " : F)"
	}
	var tys []string
	for i := range outs {
		if s.hasResult && i == 0 {
			tys = append(tys, "bool")
		} else {
			tys = append(tys, "F")
		}
	}
	// the result type is written out: without it Coq infers a type that still carries the whole let chain
	fmt.Fprintf(&b, "  Definition %s%s%s : %s :=\n", k.prefix, fname, ps, strings.Join(tys, " * "))
	for _, l := range s.lets {
		fmt.Fprintf(&b, "    %s\n", l)
	}
	fmt.Fprintf(&b, "    (%s).\n\n", strings.Join(outs, ", "))
	return b.String(), hashText(src(fset, fd)), nil
}

// translateSub accepts exactly the shape
//
//	var t T[...]; t.Neg(rhs); p.Add(lhs, &t)
//
// (Sub = Add after Neg on a fresh temporary) and renders it with the already translated Neg and Add.
func translateSub(fset *token.FileSet, f *ast.File, k *slpKind) (string, string, error) {
	fd := findMethod(f, k.typ, "Sub")
	if fd == nil {
		return "", "", fmt.Errorf("%s.Sub: method not found", k.typ)
	}
	fail := func(n ast.Node, msg string) (string, string, error) {
		return "", "", fmt.Errorf("%s.Sub: %s: %s: `%s`", k.typ, fset.Position(n.Pos()), msg, src(fset, n))
	}
	fields := structFields(f, k.typ)
	if fd.Recv == nil || len(fd.Recv.List) != 1 || len(fd.Recv.List[0].Names) != 1 || fd.Type.Results != nil {
		return fail(fd, "unexpected signature")
	}
	recv := fd.Recv.List[0].Names[0].Name
	var pars []string
	for _, p := range fd.Type.Params.List {
		if typeName(p.Type) != k.typ {
			return fail(p, "unexpected parameter type")
		}
		for _, n := range p.Names {
			pars = append(pars, n.Name)
		}
	}
	if len(pars) != 2 || len(fd.Body.List) != 3 {
		return fail(fd, "expected two operands and three statements (var t; t.Neg(rhs); p.Add(lhs, &t))")
	}
	ds, ok := fd.Body.List[0].(*ast.DeclStmt)
	if !ok {
		return fail(fd.Body.List[0], "expected the declaration of the temporary")
	}
	gd, ok := ds.Decl.(*ast.GenDecl)
	if !ok || gd.Tok != token.VAR || len(gd.Specs) != 1 {
		return fail(ds, "expected one var declaration")
	}
	vs := gd.Specs[0].(*ast.ValueSpec)
	if len(vs.Names) != 1 || len(vs.Values) != 0 || typeName(vs.Type) != k.typ {
		return fail(ds, "expected an uninitialised temporary of the receiver's type")
	}
	tmp := vs.Names[0].Name
	callOf := func(st ast.Stmt) (recvName, method string, args []ast.Expr, ok bool) {
		es, ok1 := st.(*ast.ExprStmt)
		if !ok1 {
			return "", "", nil, false
		}
		c, ok2 := es.X.(*ast.CallExpr)
		if !ok2 {
			return "", "", nil, false
		}
		sel, ok3 := c.Fun.(*ast.SelectorExpr)
		if !ok3 {
			return "", "", nil, false
		}
		id, ok4 := sel.X.(*ast.Ident)
		if !ok4 {
			return "", "", nil, false
		}
		return id.Name, sel.Sel.Name, c.Args, true
	}
	r1, m1, a1, ok1 := callOf(fd.Body.List[1])
	if !ok1 || r1 != tmp || m1 != "Neg" || len(a1) != 1 || src(fset, a1[0]) != pars[1] {
		return fail(fd.Body.List[1], "expected "+tmp+".Neg("+pars[1]+")")
	}
	r2, m2, a2, ok2 := callOf(fd.Body.List[2])
	if !ok2 || r2 != recv || m2 != "Add" || len(a2) != 2 || src(fset, a2[0]) != pars[0] || src(fset, a2[1]) != "&"+tmp {
		return fail(fd.Body.List[2], "expected "+recv+".Add("+pars[0]+", &"+tmp+")")
	}
	var ps, negArgs, addL, tys, outs []string
	for _, p := range pars {
		for _, fl := range fields {
			ps = append(ps, p+"_"+fl)
		}
	}
	for _, fl := range fields {
		negArgs = append(negArgs, pars[1]+"_"+fl)
		addL = append(addL, pars[0]+"_"+fl)
		tys = append(tys, "F")
		outs = append(outs, "n_"+fl)
	}
	pat := outs[0]
	for _, o := range outs[1:] {
		pat = "(" + pat + ", " + o + ")"
	}
	var b strings.Builder
	fmt.Fprintf(&b, "  (* %s.Sub — %s.Neg(%s); %s.Add(%s, &%s) *)\n", k.typ, tmp, pars[1], recv, pars[0], tmp)
	fmt.Fprintf(&b, "  Definition %sSub (%s : F) : %s :=\n", k.prefix, strings.Join(ps, " "), strings.Join(tys, " * "))
	fmt.Fprintf(&b, "    let '%s := %sNeg %s in\n", pat, k.prefix, strings.Join(negArgs, " "))
	fmt.Fprintf(&b, "    %sAdd %s %s.\n\n", k.prefix, strings.Join(addL, " "), strings.Join(outs, " "))
	return b.String(), hashText(src(fset, fd)), nil
}

func indexOf(xs []string, x string) int {
	for i, y := range xs {
		if x == y {
			return i
		}
	}
	return -1
}

func genFormulas(repo string) (string, map[string]string, error) {
	hashes := map[string]string{}
	var out strings.Builder
	out.WriteString("(* GENERATED by /verif/translator (formulas.go) from the straight-line field programs of\n")
	for _, k := range slpKinds {
		fns := strings.Join(k.funcs, " ")
		if k.prefix == "W_" || k.prefix == "E_" {
			fns += " Sub"
		}
		fmt.Fprintf(&out, "     %s  (%s)\n", k.file, fns)
	}
	out.WriteString("   — do not edit.  One `let` per source statement; names are <destination>_<write number>;\n" +
		"   Select(c, z, nz) = if c then nz else z;  R.Inv(x) = (finv K x, x <> 0). *)\n")
	out.WriteString("From Coq Require Import Bool.\nRequire Import V.base.Fld.\n\n")
	out.WriteString("Section Formulas.\n  Context {F : Type} (K : fops F).\n")
	out.WriteString("  Local Notation \"x + y\" := (fadd K x y).\n  Local Notation \"x * y\" := (fmul K x y).\n")
	out.WriteString("  Local Notation \"x - y\" := (fsub K x y).\n  Local Notation \"- x\" := (fopp K x).\n\n")
	for i := range slpKinds {
		k := &slpKinds[i]
		fset := token.NewFileSet()
		f, err := parser.ParseFile(fset, filepath.Join(repo, k.file), nil, 0)
		if err != nil {
			return "", nil, err
		}
		fmt.Fprintf(&out, "  Section %s.\n  Variables %s.\n\n", k.section, k.vars)
		for _, fn := range k.funcs {
			def, h, err := translateSLP(fset, f, k, fn)
			if err != nil {
				return "", nil, err
			}
			out.WriteString(def)
			hashes[k.typ+"."+fn] = h
		}
		if k.prefix == "W_" || k.prefix == "E_" {
			def, h, err := translateSub(fset, f, k)
			if err != nil {
				return "", nil, err
			}
			out.WriteString(def)
			hashes[k.typ+".Sub"] = h
		}
		fmt.Fprintf(&out, "  End %s.\n\n", k.section)
	}
	out.WriteString("End Formulas.\n")
	return out.String(), hashes, nil
}

func init() { register("Formulas", genFormulas) }
