package main

func genFormulas(repo string) (string, map[string]string, error) {
	return "(* GENERATED placeholder *)\n", map[string]string{}, nil
}

func genConsts(repo string) (string, map[string]string, error) {
	return "(* GENERATED placeholder *)\n", map[string]string{}, nil
}
