package main

// genSerdeConsts: T-const for C12 — the configuration of pkg/base/serde/serde.go and the
// registered tag numbers of internal/tags, as Coq constants (coq/gen/SerdeConsts.v):
//
//   * the three limits (DefaultMaxNestedLevels, DefaultMaxArrayElements, DefaultMaxMapPairs) and
//     which of them the DecOptions literal actually uses;
//   * one boolean per strictness option the C12 model relies on, true iff the DecOptions
//     literal in updateModes sets exactly the strict value (DupMapKeyEnforcedAPF,
//     IndefLengthForbidden, ExtraDecErrorUnknownField, BignumTagForbidden, UTF8RejectInvalid, ...),
//     the encoder is cbor.CoreDetEncOptions(), and UnmarshalCBOR uses mode.Unmarshal (whole
//     input, no trailing bytes) — the model in coq/model/Cbor.v is the strict decoder, and
//     props/C12.v proves [serde_strict = true] about these regenerated booleans;
//   * every constant of internal/tags.
//
// Anything it does not understand (a DecOptions field whose value is not an identifier or a
// package selector, a missing function) is an error: the tie is broken, not skipped.

import (
	"fmt"
	"go/ast"
	"go/constant"
	"go/parser"
	"go/token"
	"os"
	"path/filepath"
	"sort"
	"strings"
)

func init() { register("SerdeConsts", genSerdeConsts) }

func genSerdeConsts(repo string) (string, map[string]string, error) {
	hashes := map[string]string{}
	fset := token.NewFileSet()
	path := filepath.Join(repo, "pkg/base/serde/serde.go")
	f, err := parser.ParseFile(fset, path, nil, parser.ParseComments)
	if err != nil {
		return "", nil, err
	}
	pkg, _ := typeCheckLoose(fset, []*ast.File{f})
	constVal := func(name string) (string, error) {
		if pkg == nil {
			return "", fmt.Errorf("serde.go does not type-check")
		}
		o := pkg.Scope().Lookup(name)
		c, ok := o.(interface{ Val() constant.Value })
		if o == nil || !ok || c.Val().Kind() != constant.Int {
			return "", fmt.Errorf("serde.go: integer constant %s not found", name)
		}
		return c.Val().ExactString(), nil
	}
	um := findMethod(f, "", "updateModes")
	if um == nil {
		return "", nil, fmt.Errorf("serde.go: func updateModes not found")
	}
	hashes["updateModes"] = hashText(src(fset, um))
	// the DecOptions composite literal and the encoder options call
	opts := map[string]string{}
	var optOrder []string
	coreDet := false
	var perr error
	ast.Inspect(um.Body, func(n ast.Node) bool {
		switch x := n.(type) {
		case *ast.CompositeLit:
			if sel, ok := x.Type.(*ast.SelectorExpr); ok && sel.Sel.Name == "DecOptions" {
				for _, e := range x.Elts {
					kv, ok := e.(*ast.KeyValueExpr)
					if !ok {
						perr = fmt.Errorf("DecOptions: positional element %s", src(fset, e))
						return false
					}
					k, ok := kv.Key.(*ast.Ident)
					if !ok {
						perr = fmt.Errorf("DecOptions: key %s", src(fset, kv.Key))
						return false
					}
					var v string
					switch val := kv.Value.(type) {
					case *ast.SelectorExpr:
						v = val.Sel.Name
					case *ast.Ident:
						v = val.Name
					case *ast.BasicLit:
						v = val.Value
					default:
						perr = fmt.Errorf("DecOptions.%s: unsupported value %s", k.Name, src(fset, kv.Value))
						return false
					}
					opts[k.Name] = v
					optOrder = append(optOrder, k.Name)
				}
			}
		case *ast.CallExpr:
			if sel, ok := x.Fun.(*ast.SelectorExpr); ok && sel.Sel.Name == "CoreDetEncOptions" {
				coreDet = true
			}
		}
		return true
	})
	if perr != nil {
		return "", nil, perr
	}
	if len(opts) == 0 {
		return "", nil, fmt.Errorf("serde.go: cbor.DecOptions literal not found in updateModes")
	}
	// limits: the option must name the constant (or be a literal)
	limit := func(opt string) (string, error) {
		v, ok := opts[opt]
		if !ok {
			return "", fmt.Errorf("DecOptions.%s not set (library default would apply; not modelled)", opt)
		}
		if len(v) > 0 && v[0] >= '0' && v[0] <= '9' {
			return v, nil
		}
		return constVal(v)
	}
	depth, err := limit("MaxNestedLevels")
	if err != nil {
		return "", nil, err
	}
	arr, err := limit("MaxArrayElements")
	if err != nil {
		return "", nil, err
	}
	mp, err := limit("MaxMapPairs")
	if err != nil {
		return "", nil, err
	}
	// whole-input decoding: UnmarshalCBOR must call <mode>.Unmarshal(data, &t)
	uf := findMethod(f, "", "UnmarshalCBOR")
	if uf == nil {
		return "", nil, fmt.Errorf("serde.go: func UnmarshalCBOR not found")
	}
	hashes["UnmarshalCBOR"] = hashText(src(fset, uf))
	whole, calls := false, 0
	ast.Inspect(uf.Body, func(n ast.Node) bool {
		if c, ok := n.(*ast.CallExpr); ok {
			if sel, ok := c.Fun.(*ast.SelectorExpr); ok && strings.HasPrefix(sel.Sel.Name, "Unmarshal") {
				calls++
				whole = sel.Sel.Name == "Unmarshal"
			}
		}
		return true
	})
	if calls != 1 {
		return "", nil, fmt.Errorf("serde.UnmarshalCBOR: expected exactly one Unmarshal* call, found %d", calls)
	}
	mf := findMethod(f, "", "MarshalCBOR")
	if mf != nil {
		hashes["MarshalCBOR"] = hashText(src(fset, mf))
	}
	b := func(x bool) string {
		if x {
			return "true"
		}
		return "false"
	}
	is := func(opt, want string) bool { return opts[opt] == want }
	var sb strings.Builder
	sb.WriteString("(* GENERATED by /verif/translator (unit SerdeConsts) from pkg/base/serde/serde.go and internal/tags — do not edit *)\n")
	sb.WriteString("From Coq Require Import NArith Bool.\nLocal Open Scope N_scope.\n\n")
	fmt.Fprintf(&sb, "Definition max_nested_levels : nat := %s%%nat.\n", depth)
	fmt.Fprintf(&sb, "Definition max_array_elements : N := %s.\n", arr)
	fmt.Fprintf(&sb, "Definition max_map_pairs : N := %s.\n\n", mp)
	sb.WriteString("(* DecOptions as written in updateModes:\n")
	for _, k := range optOrder {
		fmt.Fprintf(&sb, "     %s: %s\n", k, opts[k])
	}
	sb.WriteString("*)\n")
	fmt.Fprintf(&sb, "Definition dup_map_key_enforced : bool := %s.\n", b(is("DupMapKey", "DupMapKeyEnforcedAPF")))
	fmt.Fprintf(&sb, "Definition indef_length_forbidden : bool := %s.\n", b(is("IndefLength", "IndefLengthForbidden")))
	fmt.Fprintf(&sb, "Definition unknown_field_is_error : bool := %s.\n", b(is("ExtraReturnErrors", "ExtraDecErrorUnknownField")))
	fmt.Fprintf(&sb, "Definition bignum_tag_forbidden : bool := %s.\n", b(is("BignumTag", "BignumTagForbidden")))
	_, utf8set := opts["UTF8"]
	fmt.Fprintf(&sb, "Definition utf8_reject_invalid : bool := %s.\n", b(!utf8set || is("UTF8", "UTF8RejectInvalid")))
	fmt.Fprintf(&sb, "Definition field_names_case_sensitive : bool := %s.\n", b(is("FieldNameMatching", "FieldNameMatchingCaseSensitive")))
	fmt.Fprintf(&sb, "Definition byte_string_keys_forbidden : bool := %s.\n", b(is("MapKeyByteString", "MapKeyByteStringForbidden")))
	fmt.Fprintf(&sb, "Definition enc_core_deterministic : bool := %s.\n", b(coreDet))
	fmt.Fprintf(&sb, "Definition unmarshal_whole_input : bool := %s.\n\n", b(whole))
	sb.WriteString("(* the configuration the strict decoder of model/Cbor.v describes *)\n")
	sb.WriteString("Definition serde_strict : bool :=\n  dup_map_key_enforced && indef_length_forbidden && unknown_field_is_error && bignum_tag_forbidden\n  && utf8_reject_invalid && field_names_case_sensitive && enc_core_deterministic && unmarshal_whole_input.\n\n")
	// tags
	tdir := filepath.Join(repo, "internal/tags")
	ents, err := os.ReadDir(tdir)
	if err != nil {
		return "", nil, err
	}
	var tfiles []*ast.File
	for _, e := range ents {
		if strings.HasSuffix(e.Name(), ".go") && !strings.HasSuffix(e.Name(), "_test.go") {
			tf, err := parser.ParseFile(fset, filepath.Join(tdir, e.Name()), nil, 0)
			if err != nil {
				return "", nil, err
			}
			tfiles = append(tfiles, tf)
			hashes["tags/"+e.Name()] = hashText(src(fset, tf))
		}
	}
	tpkg, _ := typeCheckLoose(fset, tfiles)
	if tpkg == nil {
		return "", nil, fmt.Errorf("internal/tags does not type-check")
	}
	names := tpkg.Scope().Names()
	sort.Strings(names)
	n := 0
	for _, nm := range names {
		c, ok := tpkg.Scope().Lookup(nm).(interface{ Val() constant.Value })
		if !ok || c.Val().Kind() != constant.Int {
			continue
		}
		fmt.Fprintf(&sb, "Definition tag_%s : N := %s.\n", nm, c.Val().ExactString())
		n++
	}
	if n == 0 {
		return "", nil, fmt.Errorf("internal/tags: no integer constants found")
	}
	return sb.String(), hashes, nil
}
