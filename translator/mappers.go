package main

// genMappers: T-slp for the RFC 9380 map-to-curve programs and their per-curve wiring
//
//	pkg/base/curves/impl/rfc9380/mappers/sswu/sswu.go        sswu
//	pkg/base/curves/impl/rfc9380/mappers/sswu/sqrt.go        SqrtRatio3Mod4
//	pkg/base/curves/impl/rfc9380/mappers/sswu/isogeny.go     mapIso, polyEval (fixed Horner shape)
//	pkg/base/curves/impl/rfc9380/mappers/sswu/{nonzero,zero}.go   NonZeroPointMapper.Map, ZeroPointMapper.Map
//	pkg/base/curves/impl/rfc9380/mappers/elligator2/*.go     mapToCurveElligator2Curve25519 / ...Edwards25519
//	pkg/base/curves/{k256,p256,pairable/bls12381,edwards25519}/impl/*params.go
//	        constants (MustSetHex / SetOne in init, exponent byte arrays, limb arrays), the mapper
//	        parameter methods MulByA MulByB SetZ SqrtRatio Sgn0 XNum.., L(), the expander's hash,
//	        the mapper kind (type alias) and ClearCofactor
//
// rendered as Gallina `let` chains over coq/base/Fld.v into coq/gen/Mappers.v.  The proofs of
// coq/proofs/H2cMap_proofs.v are about these generated definitions.
//
// Accepted statement forms (anything else is an error naming the statement):
//
//	var a, b F | var params P                           field locals, the parameter object
//	R.Op(args)                                          R, args: FP(&local) | FP(ptr) | &local | ptr | &pkgConst
//	    Op in SetOne SetZero Set Square Mul Add Sub Neg Double Select SetLimbs(constLimbs[:])
//	_ = R.Div(a, b)                                     fdiv (the ok result is dropped, as in the source)
//	params.SetZ(&z) params.MulByA(&o,&i) params.MulByB(&o,&i)
//	ok := params.SqrtRatio(&y,&n,&d)                    (ok, y) := sqrt_ratio n d
//	b := BOOL        BOOL: ident | BOOL ^ BOOL | BOOL ^ 1 | R.Equal(x) | R.IsZero() | R.IsNonZero() | R.IsOne()
//	                       | params.Sgn0(x) | sgn0(FP(&x))
//	fieldsImpl.Pow[FP](&dst, &x, EXP)                   fpow x EXP;  EXP: []uint8 parameter | pkgArray[:]
//	f[FP](args) for an already translated f             tuple let
//	polyEval[FP](&r, params.XNum(), x)                  poly_eval XNum x
//	return BOOL | return f(args) (tail call of a translated function)
//
// Select(c, z, nz) = if c then nz else z.  Pow(result, base, exp) is rendered as the mathematical
// power base^(little-endian value of exp) (pkg/base/algebra/impl/fields/pow.go is a fixed
// square-and-multiply; it is exercised by the correspondence).

import (
	"fmt"
	"go/ast"
	"go/parser"
	"go/token"
	"math/big"
	"os"
	"path/filepath"
	"sort"
	"strconv"
	"strings"
)

type mSig struct {
	coq     string
	ins     []int // positions of Go arguments that are inputs (field values or exponents)
	outs    []int // positions that are outputs (written pointers)
	retBool bool
}

type mCtx struct {
	fset     *token.FileSet
	known    map[string]*mSig  // translated functions by Go name
	consts   map[string]string // package-level field constants (&name) -> Coq term
	exps     map[string]string // package-level byte arrays (name[:]) -> Coq term of type N
	u64s     map[string]string // package-level uint64 variables -> Coq term of type N
	limbs    map[string]string // package-level limb arrays -> Coq term (a field-valued section variable)
	paramOps bool              // the parameter object `params` is available (section variables)
	prefix   string
}

type mslp struct {
	c        *mCtx
	fname    string
	ptrs     []string // pointer parameters in order
	isPtr    map[string]bool
	expPar   map[string]bool // []uint8 parameters
	parObj   map[string]bool
	locals   map[string]bool
	env      map[string]string
	benv     map[string]string
	counter  map[string]int
	written  map[string]bool
	readIn   map[string]bool
	lets     []string
	ret      string
	hasRet   bool
	retTuple string // tail call
	params   []string
	u64Par   map[string]bool   // uint64 parameters (exponents, loop bounds)
	ienv     map[string]string // integer locals of a loop body -> Coq term of type N
	outer    *mslp             // enclosing function when translating a loop body
	loopVar  string
}

func (s *mslp) errf(n ast.Node, format string, a ...any) error {
	return fmt.Errorf("%s: %s: %s: `%s`", s.fname, s.c.fset.Position(n.Pos()), fmt.Sprintf(format, a...), src(s.c.fset, n))
}

var coqReserved = map[string]bool{"in": true, "at": true, "end": true, "fun": true, "let": true, "match": true, "with": true, "then": true, "else": true, "if": true, "as": true, "return": true, "K": true, "F": true, "Z": true, "A": true, "B": true}

func coqIdent(n string) string {
	if coqReserved[n] {
		return n + "_"
	}
	return n
}

// loc resolves a pointer-valued expression to a location key: "p:name" (pointer parameter),
// "l:name" (local), "c:term" (read-only constant).
func (s *mslp) loc(e ast.Expr) (string, error) {
	switch x := e.(type) {
	case *ast.ParenExpr:
		return s.loc(x.X)
	case *ast.Ident:
		if s.isPtr[x.Name] {
			return "p:" + x.Name, nil
		}
		if s.locals[x.Name] {
			return "l:" + x.Name, nil // method call on an addressable local: n1.Neg(in)
		}
		if t, ok := s.c.consts[x.Name]; ok && false {
			return "c:" + t, nil
		}
		return "", s.errf(e, "not a field pointer")
	case *ast.UnaryExpr:
		if x.Op != token.AND {
			return "", s.errf(e, "unsupported operator")
		}
		switch y := x.X.(type) {
		case *ast.Ident:
			if s.locals[y.Name] {
				return "l:" + y.Name, nil
			}
			if t, ok := s.c.consts[y.Name]; ok {
				return "c:" + t, nil
			}
			return "", s.errf(e, "address of an unknown variable")
		case *ast.IndexExpr:
			// &coefficients[i] is only accepted inside the fixed polyEval shape
			return "", s.errf(e, "indexed address")
		}
		return "", s.errf(e, "unsupported address expression")
	case *ast.CallExpr:
		if id, ok := x.Fun.(*ast.Ident); ok && id.Name == "FP" && len(x.Args) == 1 {
			return s.loc(x.Args[0])
		}
		return "", s.errf(e, "unsupported call in pointer position")
	}
	return "", s.errf(e, "unsupported pointer expression")
}

func (s *mslp) read(n ast.Node, loc string) (string, error) {
	if strings.HasPrefix(loc, "c:") {
		return loc[2:], nil
	}
	if v, ok := s.env[loc]; ok {
		return v, nil
	}
	if s.outer != nil {
		return s.outer.read(n, loc) // a loop body sees the enclosing function's current values
	}
	if strings.HasPrefix(loc, "l:") {
		return "", s.errf(n, "local %s is read before it is written", loc[2:])
	}
	name := loc[2:]
	s.readIn[name] = true
	v := coqIdent(name)
	s.env[loc] = v
	return v, nil
}

func (s *mslp) fresh(loc string) (string, error) {
	if strings.HasPrefix(loc, "c:") {
		return "", fmt.Errorf("%s: write to the constant %s", s.fname, loc[2:])
	}
	base := coqIdent(loc[2:])
	s.counter[base]++
	name := fmt.Sprintf("%s_%d", base, s.counter[base])
	s.env[loc] = name
	if strings.HasPrefix(loc, "p:") {
		s.written[loc[2:]] = true
	}
	return name, nil
}

func (s *mslp) write(loc, expr string) error {
	name, err := s.fresh(loc)
	if err != nil {
		return err
	}
	s.lets = append(s.lets, fmt.Sprintf("let %s := %s in", name, expr))
	return nil
}

func (s *mslp) freshBool(name string) string {
	s.counter[name]++
	n := fmt.Sprintf("%s_%d", coqIdent(name), s.counter[name])
	s.benv[name] = n
	return n
}

func (s *mslp) argv(e ast.Expr) (string, error) {
	l, err := s.loc(e)
	if err != nil {
		return "", err
	}
	return s.read(e, l)
}

func isParamCall(s *mslp, c *ast.CallExpr) (string, bool) {
	sel, ok := c.Fun.(*ast.SelectorExpr)
	if !ok {
		return "", false
	}
	id, ok := sel.X.(*ast.Ident)
	if !ok || !s.parObj[id.Name] {
		return "", false
	}
	return sel.Sel.Name, true
}

// calleeName: f | f[FP] | pkg.f | pkg.f[FP]
func calleeName(e ast.Expr) string {
	switch x := e.(type) {
	case *ast.IndexExpr:
		return calleeName(x.X)
	case *ast.IndexListExpr:
		return calleeName(x.X)
	case *ast.Ident:
		return x.Name
	case *ast.SelectorExpr:
		if id, ok := x.X.(*ast.Ident); ok {
			return id.Name + "." + x.Sel.Name
		}
	}
	return ""
}

func (s *mslp) boolExpr(e ast.Expr) (string, error) {
	switch x := e.(type) {
	case *ast.ParenExpr:
		return s.boolExpr(x.X)
	case *ast.Ident:
		if v, ok := s.benv[x.Name]; ok {
			return v, nil
		}
		return "", s.errf(e, "unknown boolean")
	case *ast.BinaryExpr:
		if x.Op != token.XOR {
			return "", s.errf(e, "unsupported boolean operator")
		}
		l, err := s.boolExpr(x.X)
		if err != nil {
			return "", err
		}
		if lit, ok := x.Y.(*ast.BasicLit); ok && lit.Value == "1" {
			return "negb (" + l + ")", nil
		}
		r, err := s.boolExpr(x.Y)
		if err != nil {
			return "", err
		}
		return "xorb (" + l + ") (" + r + ")", nil
	case *ast.CallExpr:
		if op, ok := isParamCall(s, x); ok {
			if op == "Sgn0" && len(x.Args) == 1 && s.c.paramOps {
				a, err := s.argv(x.Args[0])
				if err != nil {
					return "", err
				}
				return "sgn0 " + a, nil
			}
			return "", s.errf(e, "unsupported parameter call in a boolean")
		}
		if id, ok := x.Fun.(*ast.Ident); ok && id.Name == "sgn0" && len(x.Args) == 1 {
			a, err := s.argv(x.Args[0])
			if err != nil {
				return "", err
			}
			return "sgn0 " + a, nil
		}
		sel, ok := x.Fun.(*ast.SelectorExpr)
		if !ok {
			return "", s.errf(e, "unsupported boolean call")
		}
		rv, err := s.argv(sel.X)
		if err != nil {
			return "", err
		}
		switch sel.Sel.Name {
		case "Equal":
			if len(x.Args) != 1 {
				return "", s.errf(e, "Equal arity")
			}
			av, err := s.argv(x.Args[0])
			if err != nil {
				return "", err
			}
			return fmt.Sprintf("feqb K %s %s", rv, av), nil
		case "IsZero", "IsNonZero", "IsOne":
			if len(x.Args) != 0 {
				return "", s.errf(e, "arity")
			}
			switch sel.Sel.Name {
			case "IsZero":
				return fmt.Sprintf("fis0 K %s", rv), nil
			case "IsNonZero":
				return fmt.Sprintf("negb (fis0 K %s)", rv), nil
			default:
				return fmt.Sprintf("feqb K %s (f1 K)", rv), nil
			}
		}
		return "", s.errf(e, "unsupported boolean method %s", sel.Sel.Name)
	}
	return "", s.errf(e, "unsupported boolean expression")
}

// expArg renders an exponent argument of Pow.
func (s *mslp) expArg(e ast.Expr) (string, error) {
	if id, ok := e.(*ast.Ident); ok && s.expPar[id.Name] {
		return coqIdent(id.Name), nil
	}
	if id, ok := e.(*ast.Ident); ok {
		if s.u64Par[id.Name] || (s.outer != nil && s.outer.u64Par[id.Name]) {
			return coqIdent(id.Name), nil
		}
		if t, ok := s.c.u64s[id.Name]; ok {
			return t, nil
		}
	}
	// binary.LittleEndian.AppendUint64(nil, X): the exponent is the uint64 value X itself
	if c, ok := e.(*ast.CallExpr); ok && isSel(c.Fun, "binary", "LittleEndian", "AppendUint64") && len(c.Args) == 2 {
		if id, ok := c.Args[0].(*ast.Ident); ok && id.Name == "nil" {
			if x, ok := c.Args[1].(*ast.Ident); ok {
				if v, ok := s.ienv[x.Name]; ok {
					return v, nil
				}
				if s.u64Par[x.Name] || (s.outer != nil && s.outer.u64Par[x.Name]) {
					return coqIdent(x.Name), nil
				}
			}
		}
	}
	if se, ok := e.(*ast.SliceExpr); ok && se.Low == nil && se.High == nil {
		if id, ok := se.X.(*ast.Ident); ok {
			if t, ok := s.c.exps[id.Name]; ok {
				return t, nil
			}
		}
	}
	return "", s.errf(e, "unsupported exponent")
}

// knownCall renders a call of an already translated function; boolTarget receives its boolean result.
func (s *mslp) knownCall(c *ast.CallExpr, sig *mSig, boolTarget string, tail bool) error {
	var ins []string
	for _, i := range sig.ins {
		if i >= len(c.Args) {
			return s.errf(c, "arity")
		}
		a := c.Args[i]
		if v, err := s.expArg(a); err == nil {
			ins = append(ins, v)
			continue
		}
		v, err := s.argv(a)
		if err != nil {
			return err
		}
		ins = append(ins, v)
	}
	call := sig.coq
	if len(ins) > 0 {
		call += " " + strings.Join(ins, " ")
	}
	if tail {
		// the outputs of the callee are this function's outputs, in the callee's order
		var pat []string
		if sig.retBool {
			pat = append(pat, s.freshBool("ok"))
			s.ret = s.benv["ok"]
			s.hasRet = true
		}
		for _, i := range sig.outs {
			l, err := s.loc(c.Args[i])
			if err != nil {
				return err
			}
			n, err := s.fresh(l)
			if err != nil {
				return err
			}
			pat = append(pat, n)
		}
		s.lets = append(s.lets, fmt.Sprintf("let '(%s) := %s in", strings.Join(pat, ", "), call))
		return nil
	}
	var pat []string
	if sig.retBool {
		if boolTarget == "" {
			pat = append(pat, "_")
		} else {
			pat = append(pat, s.freshBool(boolTarget))
		}
	} else if boolTarget != "" {
		return s.errf(c, "callee has no boolean result")
	}
	for _, i := range sig.outs {
		l, err := s.loc(c.Args[i])
		if err != nil {
			return err
		}
		n, err := s.fresh(l)
		if err != nil {
			return err
		}
		pat = append(pat, n)
	}
	if len(pat) == 1 {
		s.lets = append(s.lets, fmt.Sprintf("let %s := %s in", pat[0], call))
	} else {
		s.lets = append(s.lets, fmt.Sprintf("let '(%s) := %s in", strings.Join(pat, ", "), call))
	}
	return nil
}

func (s *mslp) call(c *ast.CallExpr, boolTarget string, dropResult bool) error {
	// parameter object
	if op, ok := isParamCall(s, c); ok {
		if !s.c.paramOps {
			return s.errf(c, "parameter object not available here")
		}
		switch op {
		case "SetZ":
			if len(c.Args) != 1 || boolTarget != "" {
				return s.errf(c, "SetZ shape")
			}
			d, err := s.loc(c.Args[0])
			if err != nil {
				return err
			}
			return s.write(d, "sswuZ")
		case "MulByA", "MulByB":
			if len(c.Args) != 2 || boolTarget != "" {
				return s.errf(c, "%s shape", op)
			}
			d, err := s.loc(c.Args[0])
			if err != nil {
				return err
			}
			v, err := s.argv(c.Args[1])
			if err != nil {
				return err
			}
			return s.write(d, fmt.Sprintf("%s %s", map[string]string{"MulByA": "mulByA", "MulByB": "mulByB"}[op], v))
		case "SqrtRatio":
			if len(c.Args) != 3 || boolTarget == "" {
				return s.errf(c, "SqrtRatio shape")
			}
			return s.knownCall(c, &mSig{coq: "sqrt_ratio", ins: []int{1, 2}, outs: []int{0}, retBool: true}, boolTarget, false)
		}
		return s.errf(c, "unknown parameter operation %s", op)
	}
	name := calleeName(c.Fun)
	if name == "fieldsImpl.Pow" {
		if len(c.Args) != 3 || boolTarget != "" {
			return s.errf(c, "Pow shape")
		}
		d, err := s.loc(c.Args[0])
		if err != nil {
			return err
		}
		b, err := s.argv(c.Args[1])
		if err != nil {
			return err
		}
		e, err := s.expArg(c.Args[2])
		if err != nil {
			return err
		}
		return s.write(d, fmt.Sprintf("fpow K %s %s", b, e))
	}
	if name == "polyEval" {
		if len(c.Args) != 3 || boolTarget != "" || s.c.known["polyEval"] == nil {
			return s.errf(c, "polyEval shape")
		}
		d, err := s.loc(c.Args[0])
		if err != nil {
			return err
		}
		pc, ok := c.Args[1].(*ast.CallExpr)
		if !ok || len(pc.Args) != 0 {
			return s.errf(c, "polyEval coefficients")
		}
		op, ok := isParamCall(s, pc)
		if !ok || !contains([]string{"XNum", "XDen", "YNum", "YDen"}, op) {
			return s.errf(c, "polyEval coefficients")
		}
		x, err := s.argv(c.Args[2])
		if err != nil {
			return err
		}
		return s.write(d, fmt.Sprintf("poly_eval iso%s %s", op, x))
	}
	if sig, ok := s.c.known[name]; ok && name != "" {
		// skip the parameter object argument positions: they are not in sig.ins/outs
		return s.knownCall(c, sig, boolTarget, false)
	}
	sel, ok := c.Fun.(*ast.SelectorExpr)
	if !ok {
		return s.errf(c, "unsupported call")
	}
	op := sel.Sel.Name
	dst, err := s.loc(sel.X)
	if err != nil {
		return err
	}
	want := func(n int) error {
		if len(c.Args) != n {
			return s.errf(c, "%s expects %d arguments", op, n)
		}
		return nil
	}
	if boolTarget != "" {
		b, err := s.boolExpr(c)
		if err != nil {
			return err
		}
		s.lets = append(s.lets, fmt.Sprintf("let %s := %s in", s.freshBool(boolTarget), b))
		return nil
	}
	if dropResult && op != "Div" {
		return s.errf(c, "result dropped")
	}
	switch op {
	case "Add", "Sub", "Mul", "Div":
		if err := want(2); err != nil {
			return err
		}
		if op == "Div" && !dropResult {
			return s.errf(c, "Div whose ok result is neither dropped nor used is not accepted as a statement")
		}
		a, err := s.argv(c.Args[0])
		if err != nil {
			return err
		}
		b, err := s.argv(c.Args[1])
		if err != nil {
			return err
		}
		return s.write(dst, fmt.Sprintf("%s %s %s", a, map[string]string{"Add": "+", "Sub": "-", "Mul": "*", "Div": "/"}[op], b))
	case "Square", "Double", "Neg", "Set":
		if err := want(1); err != nil {
			return err
		}
		a, err := s.argv(c.Args[0])
		if err != nil {
			return err
		}
		switch op {
		case "Square":
			return s.write(dst, fmt.Sprintf("%s * %s", a, a))
		case "Double":
			return s.write(dst, fmt.Sprintf("%s + %s", a, a))
		case "Neg":
			return s.write(dst, fmt.Sprintf("- %s", a))
		}
		return s.write(dst, a)
	case "SetZero":
		if err := want(0); err != nil {
			return err
		}
		return s.write(dst, "f0 K")
	case "SetOne":
		if err := want(0); err != nil {
			return err
		}
		return s.write(dst, "f1 K")
	case "SetLimbs":
		if err := want(1); err != nil {
			return err
		}
		if se, ok := c.Args[0].(*ast.SliceExpr); ok && se.Low == nil && se.High == nil {
			if id, ok := se.X.(*ast.Ident); ok {
				if t, ok := s.c.limbs[id.Name]; ok {
					return s.write(dst, t)
				}
			}
		}
		return s.errf(c, "SetLimbs of an unknown constant")
	case "Select", "CMove":
		if err := want(3); err != nil {
			return err
		}
		ch, err := s.boolExpr(c.Args[0])
		if err != nil {
			return err
		}
		z, err := s.argv(c.Args[1])
		if err != nil {
			return err
		}
		nz, err := s.argv(c.Args[2])
		if err != nil {
			return err
		}
		return s.write(dst, fmt.Sprintf("if %s then %s else %s", ch, nz, z))
	}
	return s.errf(c, "unsupported field operation %s", op)
}

func (s *mslp) stmt(st ast.Stmt) error {
	switch x := st.(type) {
	case *ast.DeclStmt:
		gd, ok := x.Decl.(*ast.GenDecl)
		if !ok || gd.Tok != token.VAR {
			return s.errf(st, "unsupported declaration")
		}
		for _, sp := range gd.Specs {
			vs := sp.(*ast.ValueSpec)
			if len(vs.Values) != 0 {
				return s.errf(st, "initialised declaration")
			}
			tn := ""
			if id, ok := vs.Type.(*ast.Ident); ok {
				tn = id.Name
			}
			switch tn {
			case "F", "Fp", "Fq", "Fp2":
				for _, n := range vs.Names {
					s.locals[n.Name] = true
				}
			case "P":
				for _, n := range vs.Names {
					s.parObj[n.Name] = true
				}
			default:
				return s.errf(st, "declaration of unsupported type")
			}
		}
		return nil
	case *ast.ExprStmt:
		c, ok := x.X.(*ast.CallExpr)
		if !ok {
			return s.errf(st, "unsupported expression statement")
		}
		return s.call(c, "", false)
	case *ast.AssignStmt:
		if len(x.Lhs) != 1 || len(x.Rhs) != 1 {
			return s.errf(st, "unsupported assignment")
		}
		lhs, ok := x.Lhs[0].(*ast.Ident)
		if !ok {
			return s.errf(st, "unsupported assignment target")
		}
		if lhs.Name == "_" && x.Tok == token.ASSIGN {
			c, ok := x.Rhs[0].(*ast.CallExpr)
			if !ok {
				return s.errf(st, "unsupported discarded expression")
			}
			return s.call(c, "", true)
		}
		if s.outer != nil {
			// integer locals of a loop body: t := i - 2 | t = 1 << t
			if v, ok := s.intExpr(x.Rhs[0]); ok {
				if x.Tok == token.DEFINE {
					if _, dup := s.ienv[lhs.Name]; dup {
						return s.errf(st, "shadowing")
					}
				} else if _, known := s.ienv[lhs.Name]; !known {
					return s.errf(st, "assignment to an unknown integer")
				}
				s.ienv[lhs.Name] = v
				return nil
			}
		}
		if x.Tok != token.DEFINE {
			return s.errf(st, "re-assignment")
		}
		if c, ok := x.Rhs[0].(*ast.CallExpr); ok {
			if _, isPar := isParamCall(s, c); isPar {
				if op, _ := isParamCall(s, c); op == "SqrtRatio" {
					return s.call(c, lhs.Name, false)
				}
			}
			if sig, ok := s.c.known[calleeName(c.Fun)]; ok && sig.retBool {
				return s.knownCall(c, sig, lhs.Name, false)
			}
		}
		b, err := s.boolExpr(x.Rhs[0])
		if err != nil {
			return err
		}
		s.lets = append(s.lets, fmt.Sprintf("let %s := %s in", s.freshBool(lhs.Name), b))
		return nil
	case *ast.ForStmt:
		return s.forLoop(x)
	case *ast.ReturnStmt:
		if len(x.Results) == 0 {
			return nil
		}
		if len(x.Results) != 1 {
			return s.errf(st, "unsupported return")
		}
		if c, ok := x.Results[0].(*ast.CallExpr); ok {
			if sig, ok := s.c.known[calleeName(c.Fun)]; ok {
				return s.knownCall(c, sig, "", true)
			}
		}
		b, err := s.boolExpr(x.Results[0])
		if err != nil {
			return err
		}
		s.ret = b
		s.hasRet = true
		return nil
	}
	return s.errf(st, "unsupported statement")
}

// intExpr renders the integer expressions of a loop body: i | literal | known integer | a - b | 1 << a
func (s *mslp) intExpr(e ast.Expr) (string, bool) {
	switch x := e.(type) {
	case *ast.ParenExpr:
		return s.intExpr(x.X)
	case *ast.BasicLit:
		if x.Kind == token.INT {
			if v, err := strconv.ParseUint(x.Value, 0, 64); err == nil {
				return strconv.FormatUint(v, 10) + "%N", true
			}
		}
	case *ast.Ident:
		if x.Name == s.loopVar && s.loopVar != "" {
			return coqIdent(x.Name), true
		}
		if v, ok := s.ienv[x.Name]; ok {
			return v, true
		}
	case *ast.BinaryExpr:
		l, ok1 := s.intExpr(x.X)
		r, ok2 := s.intExpr(x.Y)
		if ok1 && ok2 {
			switch x.Op {
			case token.SUB:
				return "(N.sub " + l + " " + r + ")", true
			case token.SHL:
				return "(N.shiftl " + l + " " + r + ")", true
			}
		}
	}
	return "", false
}

// forLoop: for i := HI; i >= LO; i-- { straight-line body over the function's locals }
// rendered as  let '(state') := for_down HI LO (fun i '(state) => body) (state) in
func (s *mslp) forLoop(x *ast.ForStmt) error {
	if s.outer != nil {
		return s.errf(x, "nested loop")
	}
	init, ok := x.Init.(*ast.AssignStmt)
	if !ok || init.Tok != token.DEFINE || len(init.Lhs) != 1 || len(init.Rhs) != 1 {
		return s.errf(x, "unsupported loop initialisation")
	}
	iv, ok1 := init.Lhs[0].(*ast.Ident)
	hi, ok2 := init.Rhs[0].(*ast.Ident)
	if !ok1 || !ok2 || !s.u64Par[hi.Name] {
		return s.errf(x, "loop must start at a uint64 parameter")
	}
	cond, ok := x.Cond.(*ast.BinaryExpr)
	if !ok || cond.Op != token.GEQ || src(s.c.fset, cond.X) != iv.Name {
		return s.errf(x, "unsupported loop condition")
	}
	lo, ok := cond.Y.(*ast.BasicLit)
	if !ok || lo.Kind != token.INT || lo.Value == "0" {
		return s.errf(x, "loop lower bound must be a positive literal (i >= 0 never ends for an unsigned i)")
	}
	post, ok := x.Post.(*ast.IncDecStmt)
	if !ok || post.Tok != token.DEC || src(s.c.fset, post.X) != iv.Name {
		return s.errf(x, "unsupported loop step")
	}
	child := func() *mslp {
		cnt := map[string]int{}
		for k, v := range s.counter {
			cnt[k] = v
		}
		return &mslp{c: s.c, fname: s.fname, isPtr: map[string]bool{}, expPar: s.expPar, parObj: s.parObj, locals: s.locals,
			env: map[string]string{}, benv: map[string]string{}, counter: cnt, written: map[string]bool{}, readIn: map[string]bool{},
			u64Par: map[string]bool{}, ienv: map[string]string{}, outer: s, loopVar: iv.Name}
	}
	// pass 1: which locals does the body write?
	c1 := child()
	for _, st := range x.Body.List {
		if err := c1.stmt(st); err != nil {
			return err
		}
	}
	var state []string
	for loc := range c1.env {
		if strings.HasPrefix(loc, "l:") {
			state = append(state, loc[2:])
		} else {
			return s.errf(x, "loop body writes through %s", loc)
		}
	}
	sort.Strings(state)
	if len(state) == 0 {
		return s.errf(x, "loop without effect")
	}
	// pass 2 with the state variables bound by the loop function
	c2 := child()
	var ins, cur []string
	for _, n := range state {
		v, ok := s.env["l:"+n]
		if !ok {
			return s.errf(x, "loop state %s has no value before the loop", n)
		}
		cur = append(cur, v)
		in := coqIdent(n) + "_i"
		c2.env["l:"+n] = in
		ins = append(ins, in)
	}
	for _, st := range x.Body.List {
		if err := c2.stmt(st); err != nil {
			return err
		}
	}
	var outs, after []string
	for _, n := range state {
		outs = append(outs, c2.env["l:"+n])
	}
	s.counter = c2.counter
	for _, n := range state {
		nm, err := s.fresh("l:" + n)
		if err != nil {
			return err
		}
		after = append(after, nm)
	}
	tup := func(xs []string) string {
		if len(xs) == 1 {
			return xs[0]
		}
		return "(" + strings.Join(xs, ", ") + ")"
	}
	pat := func(xs []string) string {
		if len(xs) == 1 {
			return xs[0]
		}
		return "'(" + strings.Join(xs, ", ") + ")"
	}
	var b strings.Builder
	fmt.Fprintf(&b, "let %s :=\n      for_down %s %s%%N (fun %s st => let %s := st in\n", pat(after), coqIdent(hi.Name), lo.Value, coqIdent(iv.Name), pat(ins))
	for _, l := range c2.lets {
		fmt.Fprintf(&b, "        %s\n", l)
	}
	fmt.Fprintf(&b, "        %s) %s in", tup(outs), tup(cur))
	s.lets = append(s.lets, b.String())
	return nil
}

// translate a function declaration; registers its signature under goName.
func (c *mCtx) translate(fd *ast.FuncDecl, goName, coqName string) (string, error) {
	s := &mslp{c: c, fname: goName, isPtr: map[string]bool{}, expPar: map[string]bool{}, parObj: map[string]bool{}, locals: map[string]bool{},
		env: map[string]string{}, benv: map[string]string{}, counter: map[string]int{}, written: map[string]bool{}, readIn: map[string]bool{},
		u64Par: map[string]bool{}, ienv: map[string]string{}}
	pos := map[string]int{}
	i := 0
	for _, p := range fd.Type.Params.List {
		ty := src(c.fset, p.Type)
		for _, n := range p.Names {
			switch ty {
			case "*F", "FP", "*Fp", "*Fq", "*Fp2":
				s.isPtr[n.Name] = true
				s.ptrs = append(s.ptrs, n.Name)
			case "[]uint8":
				s.expPar[n.Name] = true
			case "uint64":
				s.u64Par[n.Name] = true
			case "P":
				s.parObj[n.Name] = true
			default:
				return "", s.errf(p, "unsupported parameter type %s", ty)
			}
			pos[n.Name] = i
			s.params = append(s.params, n.Name)
			i++
		}
	}
	wantBool := false
	if fd.Type.Results != nil {
		if len(fd.Type.Results.List) != 1 || src(c.fset, fd.Type.Results.List[0].Type) != "ct.Bool" {
			return "", s.errf(fd.Type.Results, "unsupported result type")
		}
		wantBool = true
	}
	for _, st := range fd.Body.List {
		if err := s.stmt(st); err != nil {
			return "", err
		}
	}
	if wantBool != s.hasRet {
		return "", fmt.Errorf("%s: boolean result mismatch", goName)
	}
	sig := &mSig{coq: coqName, retBool: wantBool}
	var ins, outs, tys []string
	for _, n := range s.params {
		switch {
		case s.expPar[n] || s.u64Par[n]:
			ins = append(ins, fmt.Sprintf("(%s : N)", coqIdent(n)))
			sig.ins = append(sig.ins, pos[n])
		case s.isPtr[n] && (s.readIn[n] || !s.written[n]): // never-written pointers are inputs even when unused: stable signatures
			ins = append(ins, fmt.Sprintf("(%s : F)", coqIdent(n)))
			sig.ins = append(sig.ins, pos[n])
		}
	}
	if wantBool {
		outs = append(outs, s.ret)
		tys = append(tys, "bool")
	}
	for _, n := range s.ptrs {
		if s.written[n] {
			outs = append(outs, s.env["p:"+n])
			tys = append(tys, "F")
			sig.outs = append(sig.outs, pos[n])
		}
	}
	if len(outs) == 0 {
		return "", fmt.Errorf("%s: no observable output", goName)
	}
	var b strings.Builder
	var outNames []string
	if wantBool {
		outNames = append(outNames, "ok")
	}
	for _, i := range sig.outs {
		outNames = append(outNames, s.params[i])
	}
	fmt.Fprintf(&b, "  (* %s — result: (%s) *)\n", goName, strings.Join(outNames, ", "))
	fmt.Fprintf(&b, "  Definition %s %s : %s :=\n", coqName, strings.Join(ins, " "), strings.Join(tys, " * "))
	for _, l := range s.lets {
		fmt.Fprintf(&b, "    %s\n", l)
	}
	fmt.Fprintf(&b, "    (%s).\n\n", strings.Join(outs, ", "))
	c.known[goName] = sig
	return b.String(), nil
}

// ---- fixed shapes -------------------------------------------------------------------------------

func checkPolyEval(fset *token.FileSet, f *ast.File) (string, error) {
	fd := findMethod(f, "", "polyEval")
	if fd == nil {
		return "", fmt.Errorf("polyEval not found")
	}
	want := []string{
		"FP(result).Set(&coefficients[len(coefficients)-1])",
		"for i := len(coefficients) - 2; i >= 0; i-- {\n\tFP(result).Mul(result, at)\n\tFP(result).Add(result, &coefficients[i])\n}",
	}
	if len(fd.Body.List) != len(want) {
		return "", fmt.Errorf("polyEval: unexpected body")
	}
	for i, st := range fd.Body.List {
		if got := src(fset, st); got != want[i] {
			return "", fmt.Errorf("polyEval: %s: unrecognised statement `%s`", fset.Position(st.Pos()), got)
		}
	}
	return hashText(src(fset, fd)), nil
}

func findType(f *ast.File, name string) *ast.TypeSpec {
	var out *ast.TypeSpec
	ast.Inspect(f, func(n ast.Node) bool {
		if ts, ok := n.(*ast.TypeSpec); ok && ts.Name.Name == name {
			out = ts
			return false
		}
		return true
	})
	return out
}

// ---- per-curve parameters -----------------------------------------------------------------------

type curveSpec struct {
	name    string // Coq prefix
	dir     string
	files   []string
	mapperP string // mapper parameter type (curveMapperParams)
	hasherP string
	mapperT string // mapper type alias
	curveP  string
	hasIso  bool
	fp2     bool // the base field is the quadratic extension (constants have components U0, U1)
}

// bigZ renders a non-negative integer as little-endian 64-bit limbs (the extracted OCaml of a plain
// 381-bit literal nests one closure per bit, which overflows ocamlopt's stack after ~150 constants)
func bigZ(v *big.Int) string {
	if v.BitLen() <= 30 {
		return "0x" + v.Text(16)
	}
	var ds []string
	for _, c := range v.Text(16) {
		ds = append(ds, "h"+string(c))
	}
	return "z_of_hex [" + strings.Join(ds, ";") + "]"
}

func hexToZ(h string) (string, error) {
	v, ok := new(big.Int).SetString(h, 16)
	if !ok {
		return "", fmt.Errorf("bad hex %q", h)
	}
	return bigZ(v), nil
}

func leBytesToN(elts []ast.Expr) (string, error) {
	v := new(big.Int)
	for i := len(elts) - 1; i >= 0; i-- {
		lit, ok := elts[i].(*ast.BasicLit)
		if !ok {
			return "", fmt.Errorf("non-literal array element")
		}
		b, err := strconv.ParseUint(lit.Value, 0, 64)
		if err != nil {
			return "", err
		}
		v.Lsh(v, 8)
		v.Or(v, new(big.Int).SetUint64(b))
	}
	return "Z.to_N (" + bigZ(v) + ")", nil
}

func leLimbsToZ(elts []ast.Expr) (string, error) {
	v := new(big.Int)
	for i := len(elts) - 1; i >= 0; i-- {
		lit, ok := elts[i].(*ast.BasicLit)
		if !ok {
			return "", fmt.Errorf("non-literal array element")
		}
		b, err := strconv.ParseUint(lit.Value, 0, 64)
		if err != nil {
			return "", err
		}
		v.Lsh(v, 64)
		v.Or(v, new(big.Int).SetUint64(b))
	}
	return bigZ(v), nil
}

// package-level `name = [...]uint8{..}` / `[...]uint64{..}` arrays
func pkgArrays(files []*ast.File, elt string) map[string][]ast.Expr {
	out := map[string][]ast.Expr{}
	for _, f := range files {
		for _, d := range f.Decls {
			gd, ok := d.(*ast.GenDecl)
			if !ok || gd.Tok != token.VAR {
				continue
			}
			for _, sp := range gd.Specs {
				vs := sp.(*ast.ValueSpec)
				for i, n := range vs.Names {
					if i >= len(vs.Values) {
						continue
					}
					cl, ok := vs.Values[i].(*ast.CompositeLit)
					if !ok {
						continue
					}
					at, ok := cl.Type.(*ast.ArrayType)
					if !ok {
						continue
					}
					if id, ok := at.Elt.(*ast.Ident); ok && id.Name == elt {
						out[n.Name] = cl.Elts
					}
				}
			}
		}
	}
	return out
}

func genCurveParams(repo string, cs curveSpec, out *strings.Builder, hashes map[string]string) error {
	fset := token.NewFileSet()
	var files []*ast.File
	for _, fn := range cs.files {
		f, err := parser.ParseFile(fset, filepath.Join(repo, cs.dir, fn), nil, 0)
		if err != nil {
			return err
		}
		files = append(files, f)
	}
	P := cs.name + "_"
	fmt.Fprintf(out, "(* ---- %s (%s) ---- *)\n", cs.name, cs.dir)
	// constants set in init(): X.MustSetHex("..") | X[i].MustSetHex("..") | X.SetOne() | X[i].SetOne()
	scalars := map[string]string{}
	arrays := map[string]map[int]string{}
	fp2vals := map[string]map[string]string{} // "name" | "name[i]" -> component -> value
	for _, f := range files {
		for _, d := range f.Decls {
			fd, ok := d.(*ast.FuncDecl)
			if !ok || fd.Name.Name != "init" || fd.Recv != nil {
				continue
			}
			hashes[cs.name+".init:"+filepath.Base(fset.Position(fd.Pos()).Filename)] = hashText(src(fset, fd))
			for _, st := range fd.Body.List {
				es, ok := st.(*ast.ExprStmt)
				if !ok {
					continue // other initialisations (generators of other structures) are not ours
				}
				c, ok := es.X.(*ast.CallExpr)
				if !ok {
					continue
				}
				sel, ok := c.Fun.(*ast.SelectorExpr)
				if !ok {
					continue
				}
				var val string
				switch sel.Sel.Name {
				case "MustSetHex":
					if len(c.Args) != 1 {
						continue
					}
					lit, ok := c.Args[0].(*ast.BasicLit)
					if !ok || lit.Kind != token.STRING {
						return fmt.Errorf("%s: init: non-literal MustSetHex `%s`", cs.name, src(fset, st))
					}
					h, _ := strconv.Unquote(lit.Value)
					z, err := hexToZ(h)
					if err != nil {
						return fmt.Errorf("%s: init: %v", cs.name, err)
					}
					val = z
				case "SetOne":
					val = "1"
				case "SetZero":
					val = "0"
				default:
					continue
				}
				if cs.fp2 {
					// X.U0.F(..) | X[i].U0.F(..) | X.SetOne() | X[i].SetOne()
					target, comp := sel.X, ""
					if cse, ok := target.(*ast.SelectorExpr); ok && (cse.Sel.Name == "U0" || cse.Sel.Name == "U1") {
						target, comp = cse.X, cse.Sel.Name
					}
					key := src(fset, target)
					if _, isId := target.(*ast.Ident); !isId {
						ie, ok := target.(*ast.IndexExpr)
						if !ok {
							return fmt.Errorf("%s: init: unsupported target `%s`", cs.name, src(fset, st))
						}
						if _, ok := ie.Index.(*ast.BasicLit); !ok {
							return fmt.Errorf("%s: init: unsupported target `%s`", cs.name, src(fset, st))
						}
					}
					set := func(c, v string) error {
						if fp2vals[key] == nil {
							fp2vals[key] = map[string]string{}
						}
						if old, dup := fp2vals[key][c]; dup && old != v {
							return fmt.Errorf("%s: init: %s.%s is set twice to different values", cs.name, key, c)
						}
						fp2vals[key][c] = v
						return nil
					}
					var err error
					switch {
					case comp != "":
						err = set(comp, val)
					case sel.Sel.Name == "SetOne":
						if err = set("U0", "1"); err == nil {
							err = set("U1", "0")
						}
					case sel.Sel.Name == "SetZero":
						if err = set("U0", "0"); err == nil {
							err = set("U1", "0")
						}
					default:
						err = fmt.Errorf("%s: init: unsupported `%s`", cs.name, src(fset, st))
					}
					if err != nil {
						return err
					}
					continue
				}
				switch t := sel.X.(type) {
				case *ast.Ident:
					if _, dup := scalars[t.Name]; dup {
						return fmt.Errorf("%s: init: %s is set twice", cs.name, t.Name)
					}
					scalars[t.Name] = val
				case *ast.IndexExpr:
					id, ok1 := t.X.(*ast.Ident)
					ix, ok2 := t.Index.(*ast.BasicLit)
					if !ok1 || !ok2 {
						return fmt.Errorf("%s: init: unsupported target `%s`", cs.name, src(fset, st))
					}
					k, _ := strconv.Atoi(ix.Value)
					if arrays[id.Name] == nil {
						arrays[id.Name] = map[int]string{}
					}
					if _, dup := arrays[id.Name][k]; dup {
						return fmt.Errorf("%s: init: %s[%d] is set twice", cs.name, id.Name, k)
					}
					arrays[id.Name][k] = val
				}
			}
		}
	}
	ctx := &mCtx{fset: fset, known: map[string]*mSig{}, consts: map[string]string{}, exps: map[string]string{}, u64s: map[string]string{}, limbs: map[string]string{}}
	elemTy := "Z"
	if cs.fp2 {
		elemTy = "(Z * Z)"
		var keys []string
		for k := range fp2vals {
			keys = append(keys, k)
		}
		sort.Strings(keys)
		arrLen := map[string]int{}
		for _, k := range keys {
			v := fp2vals[k]
			if v["U0"] == "" || v["U1"] == "" {
				return fmt.Errorf("%s: init: %s has a component that is never set", cs.name, k)
			}
			name := k
			if i := strings.Index(k, "["); i >= 0 {
				idx, _ := strconv.Atoi(k[i+1 : len(k)-1])
				name = fmt.Sprintf("%s_%d", k[:i], idx)
				if idx+1 > arrLen[k[:i]] {
					arrLen[k[:i]] = idx + 1
				}
			} else {
				ctx.consts[k] = "(" + P + k + ")"
			}
			fmt.Fprintf(out, "Definition %s%s : Z * Z := (%s, %s)%%Z.\n", P, name, v["U0"], v["U1"])
		}
		var an []string
		for n := range arrLen {
			an = append(an, n)
		}
		sort.Strings(an)
		for _, n := range an {
			var elts []string
			for i := 0; i < arrLen[n]; i++ {
				if fp2vals[fmt.Sprintf("%s[%d]", n, i)] == nil {
					return fmt.Errorf("%s: init: %s[%d] is never set", cs.name, n, i)
				}
				elts = append(elts, fmt.Sprintf("%s%s_%d", P, n, i))
			}
			fmt.Fprintf(out, "Definition %s%s : list (Z * Z) := [%s].\n", P, n, strings.Join(elts, "; "))
			arrays[n] = map[int]string{} // known coefficient array (for XNum ..)
		}
	}
	var names []string
	for n := range scalars {
		names = append(names, n)
	}
	sort.Strings(names)
	for _, n := range names {
		fmt.Fprintf(out, "Definition %s%s : Z := %s.\n", P, n, scalars[n])
		ctx.consts[n] = "(" + P + n + ")"
	}
	names = nil
	for n := range arrays {
		names = append(names, n)
	}
	sort.Strings(names)
	for _, n := range names {
		if cs.fp2 {
			continue
		}
		var elts []string
		for i := 0; i < len(arrays[n]); i++ {
			v, ok := arrays[n][i]
			if !ok {
				return fmt.Errorf("%s: init: %s[%d] is never set", cs.name, n, i)
			}
			fmt.Fprintf(out, "Definition %s%s_%d : Z := %s.\n", P, n, i, v)
			elts = append(elts, fmt.Sprintf("%s%s_%d", P, n, i))
		}
		fmt.Fprintf(out, "Definition %s%s : list Z := [%s].\n", P, n, strings.Join(elts, "; "))
	}
	bytesArr := pkgArrays(files, "uint8")
	names = nil
	for n := range bytesArr {
		names = append(names, n)
	}
	sort.Strings(names)
	for _, n := range names {
		v, err := leBytesToN(bytesArr[n])
		if err != nil {
			return fmt.Errorf("%s: %s: %v", cs.name, n, err)
		}
		fmt.Fprintf(out, "Definition %s%s : N := %s.  (* little-endian exponent bytes *)\n", P, n, v)
		ctx.exps[n] = "(" + P + n + ")"
	}
	// package-level uint64 variables with constant initialisers (sqrt_ratio c1, c4, c5)
	u64init := map[string]ast.Expr{}
	for _, f := range files {
		for _, d := range f.Decls {
			gd, ok := d.(*ast.GenDecl)
			if !ok || gd.Tok != token.VAR {
				continue
			}
			for _, sp := range gd.Specs {
				vs := sp.(*ast.ValueSpec)
				for i, n := range vs.Names {
					if i < len(vs.Values) {
						if c, ok := vs.Values[i].(*ast.CallExpr); ok && len(c.Args) == 1 {
							if id, ok := c.Fun.(*ast.Ident); ok && id.Name == "uint64" {
								u64init[n.Name] = c.Args[0]
							}
						}
					}
				}
			}
		}
	}
	var evalU64 func(e ast.Expr, depth int) (*big.Int, error)
	evalU64 = func(e ast.Expr, depth int) (*big.Int, error) {
		if depth > 20 {
			return nil, fmt.Errorf("cyclic uint64 initialiser")
		}
		switch x := e.(type) {
		case *ast.ParenExpr:
			return evalU64(x.X, depth+1)
		case *ast.BasicLit:
			v, ok := new(big.Int).SetString(x.Value, 0)
			if !ok {
				return nil, fmt.Errorf("bad literal %s", x.Value)
			}
			return v, nil
		case *ast.Ident:
			if in, ok := u64init[x.Name]; ok {
				return evalU64(in, depth+1)
			}
		case *ast.BinaryExpr:
			l, err := evalU64(x.X, depth+1)
			if err != nil {
				return nil, err
			}
			r, err := evalU64(x.Y, depth+1)
			if err != nil {
				return nil, err
			}
			switch x.Op {
			case token.SHL:
				return new(big.Int).Lsh(l, uint(r.Uint64())), nil
			case token.SUB:
				return new(big.Int).Sub(l, r), nil
			case token.ADD:
				return new(big.Int).Add(l, r), nil
			}
		}
		return nil, fmt.Errorf("unsupported uint64 initialiser `%s`", src(fset, e))
	}
	names = nil
	for n := range u64init {
		names = append(names, n)
	}
	sort.Strings(names)
	for _, n := range names {
		v, err := evalU64(u64init[n], 0)
		if err != nil {
			return fmt.Errorf("%s: %s: %v", cs.name, n, err)
		}
		if v.Sign() < 0 || v.BitLen() > 64 {
			return fmt.Errorf("%s: %s: value out of uint64 range", cs.name, n)
		}
		fmt.Fprintf(out, "Definition %s%s : N := Z.to_N (%s).  (* uint64(%s) *)\n", P, n, bigZ(v), src(fset, u64init[n]))
		ctx.u64s[n] = "(" + P + n + ")"
	}
	// methods of the mapper parameter object
	find := func(recv, name string) *ast.FuncDecl {
		for _, f := range files {
			if fd := findMethod(f, recv, name); fd != nil {
				return fd
			}
		}
		return nil
	}
	if cs.mapperP != "" {
		fmt.Fprintf(out, "Section %sMapperParams.\n  Variable K : fops %s.\n  Local Notation F := %s%%type.\n", P, elemTy, elemTy)
		out.WriteString("  Local Notation \"x + y\" := (fadd K x y).\n  Local Notation \"x * y\" := (fmul K x y).\n  Local Notation \"x - y\" := (fsub K x y).\n  Local Notation \"- x\" := (fopp K x).\n")
		for _, m := range []string{"MulByA", "MulByB", "SetZ"} {
			fd := find(cs.mapperP, m)
			if fd == nil {
				return fmt.Errorf("%s: %s.%s not found", cs.name, cs.mapperP, m)
			}
			def, err := ctx.translate(fd, cs.mapperP+"."+m, P+m)
			if err != nil {
				return err
			}
			out.WriteString(def)
			hashes[cs.name+"."+cs.mapperP+"."+m] = hashText(src(fset, fd))
		}
		// SqrtRatio: return sswu.SqrtRatio3Mod4(y, C1[:], &C2, u, v)
		fd := find(cs.mapperP, "SqrtRatio")
		if fd == nil {
			return fmt.Errorf("%s: SqrtRatio not found", cs.name)
		}
		ctx.known["sswu.SqrtRatio3Mod4"] = &mSig{coq: "SqrtRatio3Mod4 K", ins: []int{1, 2, 3, 4}, outs: []int{0}, retBool: true}
		ctx.known["sswu.SqrtRatio"] = &mSig{coq: "SqrtRatio K", ins: []int{1, 2, 3, 4, 5, 6, 7, 8}, outs: []int{0}, retBool: true}
		def, err := ctx.translate(fd, cs.mapperP+".SqrtRatio", P+"SqrtRatio")
		if err != nil {
			return err
		}
		out.WriteString(def)
		hashes[cs.name+"."+cs.mapperP+".SqrtRatio"] = hashText(src(fset, fd))
		fmt.Fprintf(out, "End %sMapperParams.\n", P)
		// Sgn0: fixed shape
		fd = find(cs.mapperP, "Sgn0")
		if fd == nil {
			return fmt.Errorf("%s: Sgn0 not found", cs.name)
		}
		if cs.fp2 {
			var body []string
			for _, st := range fd.Body.List {
				body = append(body, src(fset, st))
			}
			if strings.Join(body, "; ") != "sign0 := ct.Bool(v.U0.Bytes()[0] & 0b1); zero0 := v.U0.IsZero(); sign1 := ct.Bool(v.U1.Bytes()[0] & 0b1); s := sign0 | (zero0 & sign1); return s" {
				return fmt.Errorf("%s: Sgn0: unrecognised body (expected RFC 9380 sgn0 for m = 2)", cs.name)
			}
			fmt.Fprintf(out, "Definition %sSgn0 (v : Z * Z) : bool := Z.odd (fst v) || ((fst v =? 0)%%Z && Z.odd (snd v)).  (* sign_0 OR (zero_0 AND sign_1) *)\n", P)
		} else {
			if len(fd.Body.List) != 1 || src(fset, fd.Body.List[0]) != "return ct.Bool(uint64(v.Bytes()[0] & 0b1))" {
				return fmt.Errorf("%s: Sgn0: unrecognised body (expected the parity of the first little-endian byte)", cs.name)
			}
			fmt.Fprintf(out, "Definition %sSgn0 (v : Z) : bool := Z.odd v.  (* v.Bytes()[0] & 1, Bytes = canonical little-endian *)\n", P)
		}
		hashes[cs.name+"."+cs.mapperP+".Sgn0"] = hashText(src(fset, fd))
		if cs.hasIso {
			for _, m := range []string{"XNum", "XDen", "YNum", "YDen"} {
				fd := find(cs.mapperP, m)
				if fd == nil || len(fd.Body.List) != 1 {
					return fmt.Errorf("%s: %s not found", cs.name, m)
				}
				rs, ok := fd.Body.List[0].(*ast.ReturnStmt)
				if !ok || len(rs.Results) != 1 {
					return fmt.Errorf("%s: %s: unrecognised body", cs.name, m)
				}
				se, ok := rs.Results[0].(*ast.SliceExpr)
				if !ok || se.Low != nil || se.High != nil {
					return fmt.Errorf("%s: %s: unrecognised body", cs.name, m)
				}
				id, ok := se.X.(*ast.Ident)
				if !ok || arrays[id.Name] == nil {
					return fmt.Errorf("%s: %s: unknown coefficient array", cs.name, m)
				}
				fmt.Fprintf(out, "Definition %s%s : list %s := %s%s.\n", P, m, elemTy, P, id.Name)
			}
		}
	}
	// mapper kind
	if cs.mapperT != "" {
		var ts *ast.TypeSpec
		for _, f := range files {
			if t := findType(f, cs.mapperT); t != nil {
				ts = t
			}
		}
		if ts == nil {
			return fmt.Errorf("%s: type %s not found", cs.name, cs.mapperT)
		}
		kind := calleeName(ts.Type)
		switch kind {
		case "sswu.ZeroPointMapper", "sswu.NonZeroPointMapper", "elligator2.Edwards25519PointMapper":
		default:
			return fmt.Errorf("%s: unknown mapper `%s`", cs.name, src(fset, ts.Type))
		}
		fmt.Fprintf(out, "Definition %smapper_kind : mapper_kind := %s.\n", P, strings.ReplaceAll(kind, ".", "_"))
	}
	// hasher parameters: L and the hash of the XMD expander
	if cs.hasherP != "" {
		fd := find(cs.hasherP, "L")
		if fd == nil || len(fd.Body.List) != 1 {
			return fmt.Errorf("%s: %s.L not found", cs.name, cs.hasherP)
		}
		rs, ok := fd.Body.List[0].(*ast.ReturnStmt)
		if !ok || len(rs.Results) != 1 {
			return fmt.Errorf("%s: L: unrecognised body", cs.name)
		}
		lit, ok := rs.Results[0].(*ast.BasicLit)
		if !ok || lit.Kind != token.INT {
			return fmt.Errorf("%s: L: not a literal", cs.name)
		}
		fmt.Fprintf(out, "Definition %sL : N := %s.\n", P, lit.Value)
		fd = find(cs.hasherP, "MessageExpander")
		if fd == nil || len(fd.Body.List) != 1 {
			return fmt.Errorf("%s: MessageExpander not found", cs.name)
		}
		rs, ok = fd.Body.List[0].(*ast.ReturnStmt)
		if !ok || len(rs.Results) != 1 {
			return fmt.Errorf("%s: MessageExpander: unrecognised body", cs.name)
		}
		ev, ok := rs.Results[0].(*ast.Ident)
		if !ok {
			return fmt.Errorf("%s: MessageExpander: unrecognised body", cs.name)
		}
		found := ""
		for _, f := range files {
			for _, d := range f.Decls {
				gd, ok := d.(*ast.GenDecl)
				if !ok || gd.Tok != token.VAR {
					continue
				}
				for _, sp := range gd.Specs {
					vs := sp.(*ast.ValueSpec)
					for i, n := range vs.Names {
						if n.Name == ev.Name && i < len(vs.Values) {
							found = src(fset, vs.Values[i])
						}
					}
				}
			}
		}
		var hk string
		switch found {
		case "h2c.NewXMDMessageExpander(sha256.New)":
			hk = "XMD_SHA256"
		case "h2c.NewXMDMessageExpander(sha512.New)":
			hk = "XMD_SHA512"
		case "h2c.NewXMDMessageExpander(func() hash.Hash { h, _ := blake2b.New512(nil); return h })":
			hk = "XMD_BLAKE2B512"
		default:
			return fmt.Errorf("%s: unrecognised message expander `%s`", cs.name, found)
		}
		fmt.Fprintf(out, "Definition %sexpander : expander_kind := %s.\n", P, hk)
	}
	// ClearCofactor: the identity shape (cofactor 1)
	if cs.curveP != "" {
		fd := find(cs.curveP, "ClearCofactor")
		if fd == nil {
			return fmt.Errorf("%s: ClearCofactor not found", cs.name)
		}
		hashes[cs.name+"."+cs.curveP+".ClearCofactor"] = hashText(src(fset, fd))
		var body []string
		for _, st := range fd.Body.List {
			body = append(body, src(fset, st))
		}
		joined := strings.Join(body, "; ")
		switch {
		case joined == "xOut.Set(xIn); yOut.Set(yIn); zOut.Set(zIn)":
			fmt.Fprintf(out, "Definition %sclear_cofactor : cofactor_kind := Cofactor_identity.\n", P)
		case joined == "var out Point; out.X.Set(xIn); out.Y.Set(yIn); out.T.Set(tIn); out.Z.Set(zIn); out.Double(&out); out.Double(&out); out.Double(&out); xOut.Set(&out.X); yOut.Set(&out.Y); tOut.Set(&out.T); zOut.Set(&out.Z)":
			fmt.Fprintf(out, "Definition %sclear_cofactor : cofactor_kind := Cofactor_double3.\n", P)
		case strings.HasPrefix(joined, "var in G1Point; in.X.Set(xIn); in.Y.Set(yIn); in.Z.Set(zIn); var out G1Point; aimpl.ScalarMulLowLevel(&out, &in, binary.LittleEndian.AppendUint64(nil, ") &&
			strings.HasSuffix(joined, ")); xOut.Set(&out.X); yOut.Set(&out.Y); zOut.Set(&out.Z)"):
			// the scalar is a constant expression of the package (X+1): evaluate it as the compiler does
			var call *ast.CallExpr
			ast.Inspect(fd, func(n ast.Node) bool {
				if c, ok := n.(*ast.CallExpr); ok && isSel(c.Fun, "binary", "LittleEndian", "AppendUint64") && len(c.Args) == 2 {
					call = c
				}
				return true
			})
			if call == nil {
				return fmt.Errorf("%s: ClearCofactor: scalar not found", cs.name)
			}
			entries, err := os.ReadDir(filepath.Join(repo, cs.dir))
			if err != nil {
				return err
			}
			var all []*ast.File
			for _, e := range entries {
				if strings.HasSuffix(e.Name(), ".go") && !strings.HasSuffix(e.Name(), "_test.go") && !strings.Contains(e.Name(), "fiat") && !strings.HasSuffix(e.Name(), ".gen.go") {
					f, err := parser.ParseFile(fset, filepath.Join(repo, cs.dir, e.Name()), nil, 0)
					if err != nil {
						return err
					}
					all = append(all, f)
				}
			}
			// re-find the scalar expression inside the freshly parsed files
			var expr ast.Expr
			for _, f := range all {
				if m := findMethod(f, cs.curveP, "ClearCofactor"); m != nil {
					ast.Inspect(m, func(n ast.Node) bool {
						if c, ok := n.(*ast.CallExpr); ok && isSel(c.Fun, "binary", "LittleEndian", "AppendUint64") && len(c.Args) == 2 {
							expr = c.Args[1]
						}
						return true
					})
				}
			}
			_, info := typeCheckLoose(fset, all)
			tv, ok := info.Types[expr]
			if expr == nil || !ok || tv.Value == nil {
				return fmt.Errorf("%s: ClearCofactor: scalar `%s` is not a constant the translator can evaluate", cs.name, src(fset, call.Args[1]))
			}
			v, ok2 := new(big.Int).SetString(tv.Value.ExactString(), 10)
			if !ok2 {
				return fmt.Errorf("%s: ClearCofactor: scalar value %s", cs.name, tv.Value.ExactString())
			}
			fmt.Fprintf(out, "Definition %sclear_cofactor : cofactor_kind := Cofactor_scalar.\n", P)
			fmt.Fprintf(out, "Definition %scofactor_scalar : Z := %s.  (* %s *)\n", P, bigZ(v), src(fset, call.Args[1]))
		case joined == "var out, in G2Point; in.X.Set(xIn); in.Y.Set(yIn); in.Z.Set(zIn); clearCofactorBls12381G2(&out, &in); xOut.Set(&out.X); yOut.Set(&out.Y); zOut.Set(&out.Z)":
			// RFC 9380 G.4 clear_cofactor_bls12381_g2 (psi-based), equal to multiplication by h_eff of 8.8.2
			fmt.Fprintf(out, "Definition %sclear_cofactor : cofactor_kind := Cofactor_bls12381g2_psi.\n", P)
		default:
			fmt.Fprintf(out, "Definition %sclear_cofactor : cofactor_kind := Cofactor_other.  (* unrecognised: %d statements *)\n", P, len(body))
		}
	}
	out.WriteString("\n")
	return nil
}

// ---- the Hash wiring of weierstrass.go ----------------------------------------------------------

func checkHashWiring(repo string, hashes map[string]string, file, typ, coq string, fields []string) (string, error) {
	fset := token.NewFileSet()
	f, err := parser.ParseFile(fset, filepath.Join(repo, file), nil, 0)
	if err != nil {
		return "", err
	}
	fd := findMethod(f, typ, "Hash")
	if fd == nil {
		return "", fmt.Errorf("%s.Hash not found", typ)
	}
	hashes[typ+".Hash"] = hashText(src(fset, fd))
	if got := src(fset, fd.Type); got != "func(dst string, message []byte)" {
		return "", fmt.Errorf("%s.Hash: unexpected parameters %s", typ, got)
	}
	// statements other than declarations, in order
	var seq []string
	for _, st := range fd.Body.List {
		if _, ok := st.(*ast.DeclStmt); ok {
			continue
		}
		seq = append(seq, src(fset, st))
	}
	var pf, qf []string
	for _, fl := range fields {
		pf = append(pf, "&p."+fl)
		qf = append(qf, "&q."+fl)
	}
	want := []string{
		"h2c.HashToField[FP](u[:], hasherParams, dst, message)",
		"mapper.Map(&xn0, &xd0, &yn0, &yd0, &u[0])",
		"mapper.Map(&xn1, &xd1, &yn1, &yd1, &u[1])",
		"q0.setFractions(&xn0, &xd0, &yn0, &yd0)",
		"q1.setFractions(&xn1, &xd1, &yn1, &yd1)",
		"q.Add(&q0, &q1)",
		"curveParams.ClearCofactor(" + strings.Join(append(pf, qf...), ", ") + ")",
	}
	if len(seq) != len(want) {
		return "", fmt.Errorf("%s.Hash: %d statements, expected %d", typ, len(seq), len(want))
	}
	for i := range want {
		if seq[i] != want[i] {
			return "", fmt.Errorf("%s.Hash: unrecognised statement `%s` (expected `%s`)", typ, seq[i], want[i])
		}
	}
	count := ""
	ast.Inspect(fd, func(n ast.Node) bool {
		if vs, ok := n.(*ast.ValueSpec); ok && len(vs.Names) == 1 && vs.Names[0].Name == "u" {
			if at, ok := vs.Type.(*ast.ArrayType); ok {
				count = src(fset, at.Len)
			}
		}
		return true
	})
	if count == "" {
		return "", fmt.Errorf("%s.Hash: declaration of u not found", typ)
	}
	return "(* " + typ + ".Hash: u = hash_to_field(count, dst, message); Q_i = setFractions(Map(u_i));\n" +
		"   result = ClearCofactor(Add(Q_0, Q_1)) *)\n" +
		"Definition " + coq + " {U Q : Type} (hash_to_field : N -> bytes -> bytes -> list U) (map_to_curve : U -> Q)\n" +
		"    (add : Q -> Q -> Q) (clear_cofactor : Q -> Q) (dflt : U) (dst message : bytes) : Q :=\n" +
		"  let u := hash_to_field " + count + "%N dst message in\n" +
		"  let q0 := map_to_curve (nth 0 u dflt) in\n" +
		"  let q1 := map_to_curve (nth 1 u dflt) in\n" +
		"  clear_cofactor (add q0 q1).\n\n", nil
}

func genMappers(repo string) (string, map[string]string, error) {
	hashes := map[string]string{}
	var out strings.Builder
	out.WriteString("(* GENERATED by /verif/translator (mappers.go) from pkg/base/curves/impl/rfc9380/mappers/{sswu,elligator2},\n" +
		"   pkg/base/curves/impl/points/weierstrass.go (Hash) and the per-curve impl/*params.go — do not edit.\n" +
		"   One `let` per source statement; names are <destination>_<write number>;\n" +
		"   Select(c, z, nz) = if c then nz else z;  Pow(r, x, e) = fpow x (little-endian value of e). *)\n")
	out.WriteString("From Coq Require Import Bool List ZArith NArith.\nImport ListNotations.\nRequire Import V.base.Bytes V.base.Fld.\n\n")
	out.WriteString("(* big constants as lists of hexadecimal digits, most significant first: a plain 381-bit numeral\n   extracts to one OCaml closure per 1-bit, and ocamlopt overflows its stack on ~100 of them *)\n" +
		"Inductive hexd := h0|h1|h2|h3|h4|h5|h6|h7|h8|h9|ha|hb|hc|hd|he|hf.\n" +
		"Definition hexd_val (d : hexd) : Z :=\n  match d with h0=>0|h1=>1|h2=>2|h3=>3|h4=>4|h5=>5|h6=>6|h7=>7|h8=>8|h9=>9|ha=>10|hb=>11|hc=>12|hd=>13|he=>14|hf=>15 end%Z.\n" +
		"Definition z_of_hex (l : list hexd) : Z := fold_left (fun acc d => (acc * 16 + hexd_val d)%Z) l 0%Z.\n\n")
	out.WriteString("Definition fpow {F : Type} (K : fops F) (x : F) (e : N) : F :=\n  match e with N0 => f1 K | Npos p => Pos.iter_op (fmul K) p x end.\n\n")
	out.WriteString("(* polyEval (isogeny.go): result = c[n-1]; for i = n-2 .. 0: result = result*at + c[i] *)\n" +
		"Definition poly_eval {F : Type} (K : fops F) (coefficients : list F) (at_ : F) : F :=\n" +
		"  match rev coefficients with\n  | [] => f0 K   (* the code indexes coefficients[-1]: panic; no caller passes an empty list *)\n" +
		"  | top :: rest => fold_left (fun acc c => fadd K (fmul K acc at_) c) rest top\n  end.\n\n")
	out.WriteString("(* for i := hi; i >= lo; i-- { st = body i st } *)\nDefinition for_down {S : Type} (hi lo : N) (body : N -> S -> S) (s : S) : S :=\n  snd (N.iter (hi + 1 - lo) (fun ist => (N.pred (fst ist), body (fst ist) (snd ist))) (hi, s)).\n\n")
	out.WriteString("Inductive mapper_kind := sswu_ZeroPointMapper | sswu_NonZeroPointMapper | elligator2_Edwards25519PointMapper.\n")
	out.WriteString("Inductive expander_kind := XMD_SHA256 | XMD_SHA512 | XMD_BLAKE2B512.\n")
	out.WriteString("(* ClearCofactor: the identity | three doublings | multiplication by the scalar <curve>_cofactor_scalar | unrecognised *)\n")
	out.WriteString("Inductive cofactor_kind := Cofactor_identity | Cofactor_double3 | Cofactor_scalar | Cofactor_bls12381g2_psi | Cofactor_other.\n\n")

	sdir := filepath.Join(repo, "pkg/base/curves/impl/rfc9380/mappers/sswu")
	fset := token.NewFileSet()
	parse := func(dir, name string) (*ast.File, error) {
		return parser.ParseFile(fset, filepath.Join(dir, name), nil, 0)
	}
	notations := "  Local Notation \"x + y\" := (fadd K x y).\n  Local Notation \"x * y\" := (fmul K x y).\n" +
		"  Local Notation \"x - y\" := (fsub K x y).\n  Local Notation \"x / y\" := (fdiv K x y).\n  Local Notation \"- x\" := (fopp K x).\n"

	// SqrtRatio3Mod4
	fsq, err := parse(sdir, "sqrt.go")
	if err != nil {
		return "", nil, err
	}
	out.WriteString("Section SqrtRatio.\n  Context {F : Type} (K : fops F).\n" + notations + "\n")
	ctx := &mCtx{fset: fset, known: map[string]*mSig{}, consts: map[string]string{}, exps: map[string]string{}, u64s: map[string]string{}, limbs: map[string]string{}}
	fd := findMethod(fsq, "", "SqrtRatio3Mod4")
	if fd == nil {
		return "", nil, fmt.Errorf("SqrtRatio3Mod4 not found")
	}
	def, err := ctx.translate(fd, "SqrtRatio3Mod4", "SqrtRatio3Mod4")
	if err != nil {
		return "", nil, err
	}
	out.WriteString(def)
	hashes["sswu.SqrtRatio3Mod4"] = hashText(src(fset, fd))
	fd = findMethod(fsq, "", "SqrtRatio")
	if fd == nil {
		return "", nil, fmt.Errorf("SqrtRatio not found")
	}
	def, err = ctx.translate(fd, "SqrtRatio", "SqrtRatio")
	if err != nil {
		return "", nil, err
	}
	out.WriteString(def)
	hashes["sswu.SqrtRatio"] = hashText(src(fset, fd))
	out.WriteString("End SqrtRatio.\n\n")

	// sswu, mapIso, Map
	out.WriteString("Section SSWU.\n  Context {F : Type} (K : fops F).\n" + notations)
	out.WriteString("  Variables (mulByA mulByB : F -> F) (sswuZ : F) (sqrt_ratio : F -> F -> bool * F) (sgn0 : F -> bool).\n")
	out.WriteString("  Variables (isoXNum isoXDen isoYNum isoYDen : list F).\n  Local Notation poly_eval := (poly_eval K).\n\n")
	ctx = &mCtx{fset: fset, known: map[string]*mSig{}, consts: map[string]string{}, exps: map[string]string{}, u64s: map[string]string{}, limbs: map[string]string{}, paramOps: true}
	fsw, err := parse(sdir, "sswu.go")
	if err != nil {
		return "", nil, err
	}
	fd = findMethod(fsw, "", "sswu")
	if fd == nil {
		return "", nil, fmt.Errorf("sswu not found")
	}
	def, err = ctx.translate(fd, "sswu", "sswu")
	if err != nil {
		return "", nil, err
	}
	out.WriteString(def)
	hashes["sswu.sswu"] = hashText(src(fset, fd))
	fiso, err := parse(sdir, "isogeny.go")
	if err != nil {
		return "", nil, err
	}
	h, err := checkPolyEval(fset, fiso)
	if err != nil {
		return "", nil, err
	}
	hashes["sswu.polyEval"] = h
	ctx.known["polyEval"] = &mSig{}
	fd = findMethod(fiso, "", "mapIso")
	if fd == nil {
		return "", nil, fmt.Errorf("mapIso not found")
	}
	def, err = ctx.translate(fd, "mapIso", "mapIso")
	if err != nil {
		return "", nil, err
	}
	out.WriteString(def)
	hashes["sswu.mapIso"] = hashText(src(fset, fd))
	for _, m := range []struct{ file, typ, coq string }{{"nonzero.go", "NonZeroPointMapper", "NonZeroPointMapper_Map"}, {"zero.go", "ZeroPointMapper", "ZeroPointMapper_Map"}} {
		f, err := parse(sdir, m.file)
		if err != nil {
			return "", nil, err
		}
		fd := findMethod(f, m.typ, "Map")
		if fd == nil {
			return "", nil, fmt.Errorf("%s.Map not found", m.typ)
		}
		def, err := ctx.translate(fd, m.typ+".Map", m.coq)
		if err != nil {
			return "", nil, err
		}
		out.WriteString(def)
		hashes["sswu."+m.typ+".Map"] = hashText(src(fset, fd))
	}
	out.WriteString("End SSWU.\n\n")

	// elligator2
	edir := filepath.Join(repo, "pkg/base/curves/impl/rfc9380/mappers/elligator2")
	fc, err := parse(edir, "curve25519.go")
	if err != nil {
		return "", nil, err
	}
	fe, err := parse(edir, "edwards25519.go")
	if err != nil {
		return "", nil, err
	}
	ctx = &mCtx{fset: fset, known: map[string]*mSig{}, consts: map[string]string{}, exps: map[string]string{}, u64s: map[string]string{}, limbs: map[string]string{}}
	var limbNames []string
	for _, f := range []*ast.File{fc, fe} {
		arr := pkgArrays([]*ast.File{f}, "uint64")
		var ns []string
		for n := range arr {
			ns = append(ns, n)
		}
		sort.Strings(ns)
		for _, n := range ns {
			v, err := leLimbsToZ(arr[n])
			if err != nil {
				return "", nil, fmt.Errorf("%s: %v", n, err)
			}
			fmt.Fprintf(&out, "Definition %s_value : Z := %s.\n", n, v)
			ctx.limbs[n] = n
			limbNames = append(limbNames, n)
		}
		barr := pkgArrays([]*ast.File{f}, "uint8")
		ns = nil
		for n := range barr {
			ns = append(ns, n)
		}
		sort.Strings(ns)
		for _, n := range ns {
			v, err := leBytesToN(barr[n])
			if err != nil {
				return "", nil, fmt.Errorf("%s: %v", n, err)
			}
			fmt.Fprintf(&out, "Definition %s : N := %s.  (* little-endian exponent bytes *)\n", n, v)
			ctx.exps[n] = n
		}
	}
	// sgn0 of elligator2: fixed shape
	fd = findMethod(fc, "", "sgn0")
	if fd == nil || len(fd.Body.List) != 2 || src(fset, fd.Body.List[0]) != "inBytes := in.Bytes()" || src(fset, fd.Body.List[1]) != "return ct.Bool(uint64(inBytes[0] & 0b1))" {
		return "", nil, fmt.Errorf("elligator2.sgn0: unrecognised body")
	}
	hashes["elligator2.sgn0"] = hashText(src(fset, fd))
	out.WriteString("\nSection Elligator2.\n  Context {F : Type} (K : fops F).\n" + notations)
	fmt.Fprintf(&out, "  Variables (%s : F) (sgn0 : F -> bool).\n\n", strings.Join(limbNames, " "))
	for _, m := range []struct {
		f    *ast.File
		name string
	}{{fc, "mapToCurveElligator2Curve25519"}, {fe, "mapToCurveElligator2Edwards25519"}} {
		fd := findMethod(m.f, "", m.name)
		if fd == nil {
			return "", nil, fmt.Errorf("%s not found", m.name)
		}
		def, err := ctx.translate(fd, m.name, m.name)
		if err != nil {
			return "", nil, err
		}
		out.WriteString(def)
		hashes["elligator2."+m.name] = hashText(src(fset, fd))
	}
	out.WriteString("End Elligator2.\n\n")

	// Hash wiring
	w, err := checkHashWiring(repo, hashes, "pkg/base/curves/impl/points/weierstrass.go", "ShortWeierstrassPointImpl", "W_Hash", []string{"X", "Y", "Z"})
	if err != nil {
		return "", nil, err
	}
	out.WriteString(w)
	w, err = checkHashWiring(repo, hashes, "pkg/base/curves/impl/points/edwards.go", "TwistedEdwardsPointImpl", "E_Hash", []string{"X", "Y", "T", "Z"})
	if err != nil {
		return "", nil, err
	}
	out.WriteString(w)

	// per-curve parameters
	for _, cs := range []curveSpec{
		{name: "k256", dir: "pkg/base/curves/k256/impl", files: []string{"params.go"}, mapperP: "curveMapperParams", hasherP: "CurveHasherParams", mapperT: "curveMapper", curveP: "curveParams", hasIso: true},
		{name: "p256", dir: "pkg/base/curves/p256/impl", files: []string{"params.go"}, mapperP: "curveMapperParams", hasherP: "CurveHasherParams", mapperT: "curveMapper", curveP: "curveParams"},
		{name: "bls12381g1", dir: "pkg/base/curves/pairable/bls12381/impl", files: []string{"g1_params.go"}, mapperP: "g1CurveMapperParams", hasherP: "G1CurveHasherParams", mapperT: "g1CurveMapper", curveP: "g1CurveParams", hasIso: true},
		{name: "bls12381g2", dir: "pkg/base/curves/pairable/bls12381/impl", files: []string{"g2_params.go"}, mapperP: "g2CurveMapperParams", hasherP: "G2CurveHasherParams", mapperT: "g2CurveMapper", curveP: "g2CurveParams", hasIso: true, fp2: true},
		{name: "pallas", dir: "pkg/base/curves/pasta/impl", files: []string{"ep_params.go"}, mapperP: "pallasCurveMapperParams", hasherP: "PallasCurveHasherParams", mapperT: "pallasCurveMapper", curveP: "pallasCurveParams", hasIso: true},
		{name: "vesta", dir: "pkg/base/curves/pasta/impl", files: []string{"eq_params.go"}, mapperP: "vestaCurveMapperParams", hasherP: "VestaCurveHasherParams", mapperT: "vestaCurveMapper", curveP: "vestaCurveParams", hasIso: true},
		{name: "edwards25519", dir: "pkg/base/curves/edwards25519/impl", files: []string{"params.go"}, hasherP: "CurveHasherParams", mapperT: "curveMapper", curveP: "curveParams"},
	} {
		if _, err := os.Stat(filepath.Join(repo, cs.dir)); err != nil {
			return "", nil, err
		}
		if err := genCurveParams(repo, cs, &out, hashes); err != nil {
			return "", nil, err
		}
	}
	return out.String(), hashes, nil
}

func init() { register("Mappers", genMappers) }
