package main

import (
	"bytes"
	"fmt"
	"go/ast"
	"go/constant"
	"go/parser"
	"go/printer"
	"go/token"
	"go/types"
	"path/filepath"
	"strings"
)

// ---- shared helpers ---------------------------------------------------------

type fakeImporter struct{ pkgs map[string]*types.Package }

func (f *fakeImporter) Import(path string) (*types.Package, error) {
	if p, ok := f.pkgs[path]; ok {
		return p, nil
	}
	name := path[strings.LastIndex(path, "/")+1:]
	p := types.NewPackage(path, name)
	p.MarkComplete()
	f.pkgs[path] = p
	return p, nil
}

// typeCheckLoose type-checks files ignoring every error (imports are faked), which
// is enough to evaluate package-level constants exactly as the compiler does.
func typeCheckLoose(fset *token.FileSet, files []*ast.File) (*types.Package, *types.Info) {
	conf := types.Config{Importer: &fakeImporter{pkgs: map[string]*types.Package{}}, Error: func(error) {}}
	info := &types.Info{Defs: map[*ast.Ident]types.Object{}, Uses: map[*ast.Ident]types.Object{}, Types: map[ast.Expr]types.TypeAndValue{}}
	pkg, _ := conf.Check("p", fset, files, info)
	return pkg, info
}

func src(fset *token.FileSet, n ast.Node) string {
	var b bytes.Buffer
	_ = printer.Fprint(&b, fset, n)
	return b.String()
}

func coqBytesOfString(s string) string {
	parts := make([]string, 0, len(s))
	for _, c := range []byte(s) {
		parts = append(parts, fmt.Sprintf("%d", c))
	}
	return "[" + strings.Join(parts, "; ") + "]%N"
}

func findMethod(f *ast.File, recvType, name string) *ast.FuncDecl {
	for _, d := range f.Decls {
		fd, ok := d.(*ast.FuncDecl)
		if !ok || fd.Name.Name != name {
			continue
		}
		if recvType == "" {
			if fd.Recv == nil {
				return fd
			}
			continue
		}
		if fd.Recv == nil || len(fd.Recv.List) != 1 {
			continue
		}
		t := fd.Recv.List[0].Type
		if st, ok := t.(*ast.StarExpr); ok {
			t = st.X
		}
		if ix, ok := t.(*ast.IndexExpr); ok {
			t = ix.X
		}
		if ix, ok := t.(*ast.IndexListExpr); ok {
			t = ix.X
		}
		if id, ok := t.(*ast.Ident); ok && id.Name == recvType {
			return fd
		}
	}
	return nil
}

// ---- hagrid -----------------------------------------------------------------

type hagridTr struct {
	fset *token.FileSet
	pkg  *types.Package
	errs []string
}

func (h *hagridTr) fail(n ast.Node, msg string) string {
	h.errs = append(h.errs, fmt.Sprintf("%s: %s: `%s`", h.fset.Position(n.Pos()), msg, src(h.fset, n)))
	return "[]"
}

func isSel(e ast.Expr, path ...string) bool {
	for i := len(path) - 1; i >= 1; i-- {
		s, ok := e.(*ast.SelectorExpr)
		if !ok || s.Sel.Name != path[i] {
			return false
		}
		e = s.X
	}
	id, ok := e.(*ast.Ident)
	return ok && id.Name == path[0]
}

// bytesExpr renders the argument of a Write call.
func (h *hagridTr) bytesExpr(e ast.Expr) string {
	switch x := e.(type) {
	case *ast.Ident:
		return x.Name
	case *ast.CompositeLit: // []byte{byte(tag)}
		if at, ok := x.Type.(*ast.ArrayType); ok && at.Len == nil {
			if id, ok := at.Elt.(*ast.Ident); ok && id.Name == "byte" && len(x.Elts) == 1 {
				if c, ok := x.Elts[0].(*ast.CallExpr); ok && len(c.Args) == 1 {
					if f, ok := c.Fun.(*ast.Ident); ok && f.Name == "byte" {
						if t, ok := c.Args[0].(*ast.Ident); ok {
							return "[" + t.Name + "]"
						}
					}
				}
			}
		}
	case *ast.CallExpr:
		// []byte(x)
		if at, ok := x.Fun.(*ast.ArrayType); ok && at.Len == nil && len(x.Args) == 1 {
			if id, ok := at.Elt.(*ast.Ident); ok && id.Name == "byte" {
				if v, ok := x.Args[0].(*ast.Ident); ok {
					return v.Name
				}
				if be, ok := x.Args[0].(*ast.BinaryExpr); ok && be.Op == token.ADD {
					a, ok1 := be.X.(*ast.Ident)
					b, ok2 := be.Y.(*ast.Ident)
					if ok1 && ok2 {
						return "(" + a.Name + " ++ " + b.Name + ")"
					}
				}
			}
		}
		// binary.BigEndian.AppendUint64(nil, uint64(...))
		if isSel(x.Fun, "binary", "BigEndian", "AppendUint64") && len(x.Args) == 2 {
			if id, ok := x.Args[0].(*ast.Ident); ok && id.Name == "nil" {
				if c, ok := x.Args[1].(*ast.CallExpr); ok && len(c.Args) == 1 {
					if f, ok := c.Fun.(*ast.Ident); ok && f.Name == "uint64" {
						switch a := c.Args[0].(type) {
						case *ast.Ident:
							return "be64 " + a.Name
						case *ast.CallExpr:
							if lf, ok := a.Fun.(*ast.Ident); ok && lf.Name == "len" && len(a.Args) == 1 {
								if v, ok := a.Args[0].(*ast.Ident); ok {
									return "be64 (len " + v.Name + ")"
								}
							}
						}
					}
				}
			}
		}
	}
	return h.fail(e, "unsupported byte expression")
}

// writeStmt recognises `_, _ = RECV.Write(arg)`; returns receiver ("t.h" or ident) and rendered arg.
func (h *hagridTr) writeStmt(s ast.Stmt) (recv, arg string, ok bool) {
	as, isAs := s.(*ast.AssignStmt)
	if !isAs || len(as.Rhs) != 1 || len(as.Lhs) != 2 {
		return "", "", false
	}
	for _, l := range as.Lhs {
		if id, ok := l.(*ast.Ident); !ok || id.Name != "_" {
			return "", "", false
		}
	}
	call, isCall := as.Rhs[0].(*ast.CallExpr)
	if !isCall || len(call.Args) != 1 {
		return "", "", false
	}
	sel, isSelx := call.Fun.(*ast.SelectorExpr)
	if !isSelx || sel.Sel.Name != "Write" {
		return "", "", false
	}
	switch r := sel.X.(type) {
	case *ast.Ident:
		recv = r.Name
	case *ast.SelectorExpr:
		if id, ok := r.X.(*ast.Ident); ok {
			recv = id.Name + "." + r.Sel.Name
		}
	}
	if recv == "" {
		return "", "", false
	}
	return recv, h.bytesExpr(call.Args[0]), true
}

type streams struct {
	pre, live, clone []string
	forked           bool
	cloneName        string
	guard            string
	readsFromClone   bool
}

func (h *hagridTr) body(fd *ast.FuncDecl, st *streams) {
	recvName := fd.Recv.List[0].Names[0].Name
	liveRecv := recvName + ".h"
	for _, s := range fd.Body.List {
		if recv, arg, ok := h.writeStmt(s); ok {
			switch {
			case recv == liveRecv && !st.forked:
				st.pre = append(st.pre, arg)
			case recv == liveRecv:
				st.live = append(st.live, arg)
			case st.forked && recv == st.cloneName:
				st.clone = append(st.clone, arg)
			default:
				h.fail(s, "write to unknown receiver")
			}
			continue
		}
		switch x := s.(type) {
		case *ast.RangeStmt:
			// for _, m := range ms { writes to t.h }
			k, _ := x.Key.(*ast.Ident)
			v, _ := x.Value.(*ast.Ident)
			coll, _ := x.X.(*ast.Ident)
			if k == nil || k.Name != "_" || v == nil || coll == nil || st.forked {
				h.fail(s, "unsupported range")
				continue
			}
			var inner []string
			for _, is := range x.Body.List {
				recv, arg, ok := h.writeStmt(is)
				if !ok || recv != liveRecv {
					h.fail(is, "unsupported statement in range body")
					continue
				}
				inner = append(inner, arg)
			}
			st.pre = append(st.pre, fmt.Sprintf("flat_map (fun %s => %s) %s", v.Name, strings.Join(inner, " ++ "), coll.Name))
		case *ast.IfStmt:
			// guard: if outLen == 0 { return nil, ... }   (only before any write)
			if be, ok := x.Cond.(*ast.BinaryExpr); ok && x.Init == nil && be.Op == token.EQL && len(st.pre) == 0 && !st.forked {
				id, ok1 := be.X.(*ast.Ident)
				lit, ok2 := be.Y.(*ast.BasicLit)
				if ok1 && ok2 && lit.Value == "0" && len(x.Body.List) == 1 {
					if _, isRet := x.Body.List[0].(*ast.ReturnStmt); isRet && x.Else == nil {
						st.guard = id.Name
						continue
					}
				}
			}
			// if _, err := io.ReadFull(hClone, buf); err != nil { return ... }
			if as, ok := x.Init.(*ast.AssignStmt); ok && len(as.Rhs) == 1 {
				if c, ok := as.Rhs[0].(*ast.CallExpr); ok && isSel(c.Fun, "io", "ReadFull") && len(c.Args) == 2 {
					if id, ok := c.Args[0].(*ast.Ident); ok && st.forked && id.Name == st.cloneName {
						st.readsFromClone = true
						continue
					}
				}
			}
			h.fail(s, "unsupported if")
		case *ast.AssignStmt:
			// hClone := cloneShake(t.h)  |  buf := make([]byte, outLen)
			if x.Tok == token.DEFINE && len(x.Lhs) == 1 && len(x.Rhs) == 1 {
				lhs, _ := x.Lhs[0].(*ast.Ident)
				if c, ok := x.Rhs[0].(*ast.CallExpr); ok && lhs != nil {
					if f, ok := c.Fun.(*ast.Ident); ok && f.Name == "cloneShake" && len(c.Args) == 1 && src(h.fset, c.Args[0]) == liveRecv && !st.forked {
						st.forked = true
						st.cloneName = lhs.Name
						continue
					}
					if f, ok := c.Fun.(*ast.Ident); ok && f.Name == "make" && len(c.Args) == 2 && src(h.fset, c.Args[0]) == "[]byte" && st.guard != "" && src(h.fset, c.Args[1]) == st.guard {
						continue
					}
				}
			}
			h.fail(s, "unsupported assignment")
		case *ast.ReturnStmt:
			continue
		default:
			h.fail(s, "unsupported statement")
		}
	}
}

func coqParams(fd *ast.FuncDecl, h *hagridTr) string {
	var ps []string
	for _, f := range fd.Type.Params.List {
		var ty string
		switch t := f.Type.(type) {
		case *ast.Ident:
			switch t.Name {
			case "string":
				ty = "bytes"
			case "uint", "uint64", "int":
				ty = "N"
			}
		case *ast.Ellipsis:
			if src(h.fset, t.Elt) == "[]byte" {
				ty = "list bytes"
			}
		case *ast.ArrayType:
			if src(h.fset, t) == "[]byte" {
				ty = "bytes"
			}
		}
		if ty == "" {
			h.fail(f, "unsupported parameter type")
			ty = "bytes"
		}
		for _, n := range f.Names {
			ps = append(ps, fmt.Sprintf("(%s : %s)", n.Name, ty))
		}
	}
	return strings.Join(ps, " ")
}

func joinApp(xs []string) string {
	if len(xs) == 0 {
		return "[]"
	}
	return strings.Join(xs, " ++ ")
}

func genHagrid(repo string) (string, map[string]string, error) {
	path := filepath.Join(repo, "pkg/transcripts/hagrid/hagrid.go")
	fset := token.NewFileSet()
	f, err := parser.ParseFile(fset, path, nil, 0)
	if err != nil {
		return "", nil, err
	}
	pkg, _ := typeCheckLoose(fset, []*ast.File{f})
	h := &hagridTr{fset: fset, pkg: pkg}
	hashes := map[string]string{}
	var out strings.Builder
	out.WriteString("(* GENERATED by /verif/translator from pkg/transcripts/hagrid/hagrid.go — do not edit. *)\n")
	out.WriteString("From Coq Require Import List NArith.\nImport ListNotations.\nRequire Import V.base.Bytes.\nLocal Open Scope N_scope.\n\n")

	// constants
	for _, name := range []string{"domainTag", "appendTag", "extractTag", "extractedTag", "continuedTag"} {
		obj := pkg.Scope().Lookup(name)
		c, ok := obj.(*types.Const)
		if !ok {
			return "", nil, fmt.Errorf("constant %s not found", name)
		}
		v, exact := constant.Uint64Val(c.Val())
		if !exact || v > 255 {
			return "", nil, fmt.Errorf("constant %s is not a byte", name)
		}
		fmt.Fprintf(&out, "Definition %s : N := %d.\n", name, v)
	}
	if c, ok := pkg.Scope().Lookup("customizedShakeName").(*types.Const); ok && c.Val().Kind() == constant.String {
		fmt.Fprintf(&out, "Definition customizedShakeName : bytes := %s.\n", coqBytesOfString(constant.StringVal(c.Val())))
	} else {
		return "", nil, fmt.Errorf("constant customizedShakeName not found")
	}
	out.WriteString("\n")

	// NewTranscript: sha3.NewCSHAKE256(nil, []byte(customizedShakeName+name))
	nt := findMethod(f, "", "NewTranscript")
	if nt == nil {
		return "", nil, fmt.Errorf("NewTranscript not found")
	}
	hashes["NewTranscript"] = hashText(src(fset, nt))
	found := false
	ast.Inspect(nt, func(n ast.Node) bool {
		c, ok := n.(*ast.CallExpr)
		if ok && isSel(c.Fun, "sha3", "NewCSHAKE256") && len(c.Args) == 2 {
			if id, ok := c.Args[0].(*ast.Ident); ok && id.Name == "nil" {
				fmt.Fprintf(&out, "Definition NewTranscript_N : bytes := [].\nDefinition NewTranscript_S %s : bytes := %s.\n\n", coqParams(nt, h), h.bytesExpr(c.Args[1]))
				found = true
			}
		}
		return true
	})
	if !found {
		return "", nil, fmt.Errorf("NewTranscript: cSHAKE256 construction not recognised")
	}

	type m struct {
		name   string
		forked bool
	}
	for _, mm := range []m{{"AppendDomainSeparator", false}, {"AppendBytes", false}, {"ExtractBytes", true}} {
		fd := findMethod(f, "transcript", mm.name)
		if fd == nil {
			return "", nil, fmt.Errorf("method %s not found", mm.name)
		}
		hashes[mm.name] = hashText(src(fset, fd))
		st := &streams{}
		h.body(fd, st)
		ps := coqParams(fd, h)
		if !mm.forked {
			if st.forked || st.guard != "" {
				h.fail(fd, "unexpected fork/guard")
			}
			fmt.Fprintf(&out, "Definition %s %s : bytes :=\n  %s.\n\n", mm.name, ps, joinApp(st.pre))
		} else {
			if !st.forked || !st.readsFromClone || st.guard == "" {
				h.fail(fd, "ExtractBytes: expected guard, fork and read from the clone")
			}
			fmt.Fprintf(&out, "Definition %s_refuses %s : bool := N.eqb %s 0.\n", mm.name, ps, st.guard)
			fmt.Fprintf(&out, "Definition %s_pre %s : bytes :=\n  %s.\n", mm.name, ps, joinApp(st.pre))
			fmt.Fprintf(&out, "Definition %s_live : bytes := %s.\n", mm.name, joinApp(st.live))
			fmt.Fprintf(&out, "Definition %s_clone : bytes := %s.\n\n", mm.name, joinApp(st.clone))
		}
	}
	// Clone must be a plain copy of the sponge
	cl := findMethod(f, "transcript", "Clone")
	if cl == nil {
		return "", nil, fmt.Errorf("Clone not found")
	}
	hashes["Clone"] = hashText(src(fset, cl))
	for _, s := range cl.Body.List {
		if _, _, ok := h.writeStmt(s); ok {
			h.fail(s, "Clone writes to the sponge")
		}
	}
	if len(h.errs) > 0 {
		return "", nil, fmt.Errorf("%s", strings.Join(h.errs, "; "))
	}
	return out.String(), hashes, nil
}

func init() { register("Hagrid", genHagrid) }
